//go:build verif

// p2psim: the heartbeat / re-observation-request half of C03. Real code: processSignedHeartbeat,
// processSignedObservationRequest, heartbeatDigest, signedObservationRequestDigest (package p2p),
// common.GuardianSetState. Simulated: the gossip network (scripted honest and byzantine peers)
// and the three-line dispatch of the libp2p receive loop (libp2p itself is the stub boundary).
package p2p

import (
	"bytes"
	"crypto/ecdsa"
	"encoding/hex"
	"fmt"
	"os"
	"runtime"
	"sort"
	"strconv"
	"strings"
	"sync"
	"testing"

	node_common "github.com/alephium/wormhole-fork/node/pkg/common"
	gossipv1 "github.com/alephium/wormhole-fork/node/pkg/proto/gossip/v1"
	ethcommon "github.com/ethereum/go-ethereum/common"
	ethcrypto "github.com/ethereum/go-ethereum/crypto"
	"github.com/libp2p/go-libp2p/core/peer"
	"google.golang.org/protobuf/proto"

	"verif.local/simkit"
)

const nKeys = 26

var (
	simKeys  [nKeys]*ecdsa.PrivateKey
	simAddrs [nKeys]ethcommon.Address
)

func init() {
	for i := 0; i < nKeys; i++ {
		k, err := ethcrypto.ToECDSA(ethcrypto.Keccak256([]byte("verif-guardian-key"), []byte{byte(i)}))
		if err != nil {
			panic(err)
		}
		simKeys[i] = k
		simAddrs[i] = ethcrypto.PubkeyToAddress(k.PublicKey)
	}
}

func sign(key int, digest []byte) []byte {
	s, err := ethcrypto.Sign(digest, simKeys[key])
	if err != nil {
		panic(err)
	}
	return s
}

// domain prefixes as the whitepaper (0009_guardian_key.md) states them; deliberately not taken
// from the package under test.
var (
	refHeartbeatPrefix = []byte("heartbeat|")
	refRequestPrefix   = []byte("signed_observation_request|")
)

func refDigest(prefix, payload []byte) []byte {
	return ethcrypto.Keccak256(append(append([]byte(nil), prefix...), payload...))
}

func recoverAddr(digest, sig []byte) []byte {
	if len(sig) != 65 || len(digest) != 32 {
		return nil
	}
	pk, err := ethcrypto.Ecrecover(digest, sig)
	if err != nil {
		return nil
	}
	return ethcrypto.Keccak256(pk[1:])[12:]
}

type p2pWorld struct {
	res   *simkit.Result
	log   *simkit.Log
	stats *simkit.Stats
	gst   *node_common.GuardianSetState
	cur   []int
	step  int
	// model of the heartbeat table: guardian addr hex -> peer -> serialized heartbeat
	table    map[string]map[string][]byte
	accepted int
	rejected int
	capHit   int
	// knowledge base of the adversary: every (payload, sig, addr) honest guardians produced
	seenHB  [][3][]byte
	seenReq [][3][]byte
}

func (w *p2pWorld) violate(key, format string, a ...interface{}) {
	for _, v := range w.res.Violations {
		if v.Key == key {
			return
		}
	}
	w.res.Violations = append(w.res.Violations, simkit.Violation{Prop: "C03", Key: key, Step: w.step, Detail: fmt.Sprintf(format, a...)})
}

func (w *p2pWorld) dumpTable() (string, map[string]map[string][]byte) {
	all := w.gst.GetAll()
	out := map[string]map[string][]byte{}
	var lines []string
	for a, m := range all {
		ah := hex.EncodeToString(a.Bytes())
		out[ah] = map[string][]byte{}
		for p, hb := range m {
			b, _ := proto.MarshalOptions{Deterministic: true}.Marshal(hb)
			out[ah][string(p)] = b
			lines = append(lines, ah+"/"+string(p)+"="+hex.EncodeToString(ethcrypto.Keccak256(b)[:6]))
		}
	}
	sort.Strings(lines)
	return strings.Join(lines, ";"), out
}

func inSet(set []int, addr []byte) bool {
	for _, k := range set {
		if bytes.Equal(simAddrs[k].Bytes(), addr) {
			return true
		}
	}
	return false
}

func parseKeys(x string) []int {
	var out []int
	for _, f := range strings.Split(x, ",") {
		if n, err := strconv.Atoi(strings.TrimSpace(f)); err == nil && n >= 0 && n < nKeys {
			out = append(out, n)
		}
	}
	return out
}

// payload builders: lengths are tunable so that prefix+payload straddles the 34-byte floor
func hbPayload(sel int64) []byte {
	var h gossipv1.Heartbeat
	switch sel % 8 {
	case 0, 1, 2:
		h = gossipv1.Heartbeat{NodeName: fmt.Sprintf("guardian-%d", sel), Counter: sel, Timestamp: 1_700_000_000_000_000_000 + sel, Version: "v2", GuardianAddr: "0xabc",
			BootTimestamp: 1_600_000_000, Networks: []*gossipv1.Heartbeat_Network{{Id: 2, Height: 100 + sel, ContractAddress: "0x00"}}}
	default:
		// short ones: 2+k bytes with k = 19..24 -> prefix(10)+payload = 31..36
		k := 19 + int(sel>>3)%6
		h = gossipv1.Heartbeat{NodeName: strings.Repeat("x", k)}
	}
	b, err := proto.Marshal(&h)
	if err != nil {
		panic(err)
	}
	return b
}

func reqPayload(sel int64) []byte {
	var r gossipv1.ObservationRequest
	switch sel % 8 {
	case 0, 1, 2:
		r = gossipv1.ObservationRequest{ChainId: uint32([]int{2, 4, 255}[sel%3]), TxHash: ethcrypto.Keccak256([]byte{byte(sel)})}
	default:
		// short ones: chain(2)+hash(2+k) with k=0..6 -> prefix(27)+payload = 31..37 (k=0 encodes to 2 bytes)
		k := int(sel>>3) % 7
		r = gossipv1.ObservationRequest{ChainId: 2, TxHash: bytes.Repeat([]byte{0xab}, k)}
	}
	b, err := proto.Marshal(&r)
	if err != nil {
		panic(err)
	}
	return b
}

type signedMsg struct {
	payload, sig, addr []byte
	fault              string
}

// craft builds the message of one step from a valid one by at most one mutation.
func (w *p2pWorld) craft(st simkit.Step, isHB bool) signedMsg {
	key := int(st.A) % nKeys
	if key < 0 {
		key = 0
	}
	prefix, other := refHeartbeatPrefix, refRequestPrefix
	var payload []byte
	if isHB {
		payload = hbPayload(st.B >> 8)
	} else {
		prefix, other = refRequestPrefix, refHeartbeatPrefix
		payload = reqPayload(st.B >> 8)
	}
	m := signedMsg{payload: payload, addr: simAddrs[key].Bytes()}
	m.sig = sign(key, refDigest(prefix, payload))
	d := int(st.D)
	if d < 0 {
		d = -d
	}
	switch st.C {
	case 0:
	case 1:
		m.payload = append([]byte(nil), payload...)
		m.payload[d%len(payload)] ^= 1 << uint(d%7)
		m.fault = "flip-payload"
	case 2:
		m.sig[d%64] ^= 1 << uint(d%8)
		m.fault = "flip-signature"
	case 3:
		m.addr = append([]byte(nil), m.addr...)
		m.addr[d%20] ^= 1 << uint(d%8)
		m.fault = "flip-address"
	case 4:
		o := d % nKeys
		m.addr = simAddrs[o].Bytes()
		if o != key {
			m.fault = "member-claims-other-address"
		}
	case 5:
		m.sig = sign(key, ethcrypto.Keccak256(payload))
		m.fault = "missing-prefix"
	case 6:
		m.sig = sign(key, refDigest(other, payload))
		m.fault = "other-type-prefix"
	case 7:
		m.sig = sign(key, ethcrypto.Keccak256(ethcrypto.Keccak256(payload)))
		m.fault = "vaa-style-double-hash"
	case 8:
		// a signature honestly made for a VAA digest whose 32-byte pre-image is presented as payload
		pre := ethcrypto.Keccak256([]byte("vaa-body"), []byte{byte(d)})
		m.payload = pre
		m.sig = sign(key, ethcrypto.Keccak256(pre))
		m.fault = "vaa-digest-preimage-as-payload"
	case 9:
		// cross-type replay of something an honest guardian really sent
		src := w.seenReq
		if !isHB {
			src = w.seenHB
		}
		if len(src) > 0 {
			e := src[d%len(src)]
			m.payload, m.sig, m.addr = e[0], append([]byte(nil), e[1]...), e[2]
			m.fault = "cross-type-replay"
		}
	case 10:
		m.sig = m.sig[:64]
		m.fault = "short-signature"
	case 11:
		switch d % 3 {
		case 0:
			m.sig = nil
		case 1:
			m.addr = nil
		default:
			m.payload = nil
			m.sig = sign(key, refDigest(prefix, nil))
		}
		m.fault = "nil-field"
	case 12:
		// truncated payload with a valid signature over the truncated bytes
		cut := d % (len(payload) + 1)
		m.payload = payload[:cut]
		m.sig = sign(key, refDigest(prefix, m.payload))
		m.fault = "truncated-validly-signed"
	case 13:
		m.sig[64] += 27
		m.fault = "recovery-id-27"
	}
	if m.fault != "" {
		w.stats.Fault(m.fault)
	}
	return m
}

func (w *p2pWorld) run(p *simkit.Program) {
	for i, st := range p.Steps {
		w.step = i
		switch st.Op {
		case "set":
			w.cur = parseKeys(st.X)
			gs := &node_common.GuardianSet{Index: uint32(st.A)}
			for _, k := range w.cur {
				gs.Keys = append(gs.Keys, simAddrs[k])
			}
			w.gst.Set(gs)
			w.stats.Fault("set-update")
			w.log.Add("set %v", w.cur)
		case "hb":
			w.doHeartbeat(st)
		case "req":
			w.doRequest(st)
		}
		d, _ := w.dumpTable()
		w.log.Add("table %s", hex.EncodeToString(ethcrypto.Keccak256([]byte(d))[:8]))
		w.log.Cut(fmt.Sprintf("%d %s", i, st))
	}
}

func (w *p2pWorld) doHeartbeat(st simkit.Step) {
	m := w.craft(st, true)
	from := peer.ID(fmt.Sprintf("peer-%d", st.B&0xff))
	gs := w.gst.Get()
	before, _ := w.dumpTable()
	// independent decision
	want := recoverAddr(refDigest(refHeartbeatPrefix, m.payload), m.sig)
	ok := gs != nil && len(m.addr) == 20 && want != nil && bytes.Equal(want, m.addr) && inSet(w.cur, m.addr) && len(refHeartbeatPrefix)+len(m.payload) >= 34
	var decoded gossipv1.Heartbeat
	if ok && proto.Unmarshal(m.payload, &decoded) != nil {
		ok = false
	}
	if gs == nil {
		w.log.Add("hb dropped: no set")
		return // the receive loop drops it before calling the verifier
	}
	s := &gossipv1.SignedHeartbeat{Heartbeat: m.payload, Signature: m.sig, GuardianAddr: m.addr}
	var got *gossipv1.Heartbeat
	var err error
	func() {
		defer func() {
			if r := recover(); r != nil {
				w.violate("heartbeat-verifier-panic", "processSignedHeartbeat panicked: %v (%s)", r, m.fault)
				err = fmt.Errorf("panic")
			}
		}()
		got, err = processSignedHeartbeat(from, s, gs, w.gst, false)
	}()
	after, tbl := w.dumpTable()
	ah := hex.EncodeToString(m.addr)
	if !ok {
		w.rejected++
		if err == nil {
			w.violate("invalid-heartbeat-accepted", "heartbeat with fault %q by key %d accepted", m.fault, st.A)
		}
		if before != after {
			w.violate("invalid-heartbeat-changed-table", "heartbeat with fault %q changed the heartbeat table", m.fault)
		}
	} else {
		if m.fault == "" {
			w.seenHB = append(w.seenHB, [3][]byte{m.payload, m.sig, m.addr})
		}
		nBefore := len(w.table[ah])
		_, had := w.table[ah][string(from)]
		if err != nil {
			if nBefore < 15 {
				w.violate("valid-heartbeat-rejected", "valid heartbeat (guardian has %d entries) rejected: %v", nBefore, err)
			} else {
				w.capHit++
			}
			if before != after {
				w.violate("rejected-heartbeat-changed-table", "rejected heartbeat changed the table")
			}
		} else {
			w.accepted++
			if w.table[ah] == nil {
				w.table[ah] = map[string][]byte{}
			}
			exp, _ := proto.MarshalOptions{Deterministic: true}.Marshal(&decoded)
			w.table[ah][string(from)] = exp
			if !bytes.Equal(tbl[ah][string(from)], exp) {
				w.violate("heartbeat-stored-wrongly", "accepted heartbeat is not stored under its signer %s / peer %s", ah[:8], from)
			}
			if got == nil || !proto.Equal(got, &decoded) {
				w.violate("heartbeat-returned-wrongly", "verifier returned another heartbeat than the signed one")
			}
			_ = had
		}
	}
	// global invariants: cap, and table == model
	for a, mm := range tbl {
		if len(mm) > 15 {
			w.violate("heartbeat-table-over-cap", "guardian %s has %d node entries", a[:8], len(mm))
		}
		for pid, b := range mm {
			if !bytes.Equal(w.table[a][pid], b) {
				w.violate("heartbeat-table-diverged", "table entry %s/%s differs from the model", a[:8], pid)
			}
		}
	}
	w.log.Add("hb %s ok=%v err=%v", m.fault, ok, err != nil)
}

func (w *p2pWorld) doRequest(st simkit.Step) {
	m := w.craft(st, false)
	gs := w.gst.Get()
	before, _ := w.dumpTable()
	want := recoverAddr(refDigest(refRequestPrefix, m.payload), m.sig)
	ok := gs != nil && len(m.addr) == 20 && want != nil && bytes.Equal(want, m.addr) && inSet(w.cur, m.addr) && len(refRequestPrefix)+len(m.payload) >= 34
	var decoded gossipv1.ObservationRequest
	if ok && proto.Unmarshal(m.payload, &decoded) != nil {
		ok = false
	}
	if gs == nil {
		w.log.Add("req dropped: no set")
		return
	}
	s := &gossipv1.SignedObservationRequest{ObservationRequest: m.payload, Signature: m.sig, GuardianAddr: m.addr}
	var got *gossipv1.ObservationRequest
	var err error
	func() {
		defer func() {
			if r := recover(); r != nil {
				w.violate("request-verifier-panic", "processSignedObservationRequest panicked: %v (%s)", r, m.fault)
				err = fmt.Errorf("panic")
			}
		}()
		got, err = processSignedObservationRequest(s, gs)
	}()
	after, _ := w.dumpTable()
	if before != after {
		w.violate("request-changed-heartbeat-table", "an observation request changed the heartbeat table")
	}
	if !ok {
		w.rejected++
		if err == nil || got != nil {
			w.violate("invalid-request-forwarded", "observation request with fault %q by key %d would be forwarded to the watchers", m.fault, st.A)
		}
	} else {
		if m.fault == "" {
			w.seenReq = append(w.seenReq, [3][]byte{m.payload, m.sig, m.addr})
		}
		if err != nil {
			w.violate("valid-request-rejected", "valid observation request rejected: %v", err)
		} else {
			w.accepted++
			if got == nil || !proto.Equal(got, &decoded) {
				w.violate("request-returned-wrongly", "verifier returned another request than the signed one")
			}
		}
	}
	w.log.Add("req %s ok=%v err=%v", m.fault, ok, err != nil)
}

type p2pHarness struct{}

func (p2pHarness) Name() string { return "p2psim" }

func (p2pHarness) Gen(seed uint64, prop, tier string) *simkit.Program {
	r := simkit.NewRng(seed, "p2psim")
	p := &simkit.Program{Cfg: map[string]int64{}}
	add := func(op string, a, b, c, d int64, x string) {
		p.Steps = append(p.Steps, simkit.Step{Op: op, A: a, B: b, C: c, D: d, X: x})
	}
	newSet := func() []int {
		n := r.Range(1, 19)
		return r.Perm(nKeys)[:n]
	}
	xs := func(k []int) string {
		s := make([]string, len(k))
		for i, v := range k {
			s[i] = strconv.Itoa(v)
		}
		return strings.Join(s, ",")
	}
	if r.P(0.1) { // traffic before the first set
		add("hb", int64(r.Intn(nKeys)), int64(r.Intn(2048)), 0, 0, "")
	}
	set := newSet()
	idx := int64(0)
	add("set", idx, 0, 0, 0, xs(set))
	n := 10 + r.Intn(60)
	capRun := r.P(0.2) // drive one guardian to the per-guardian cap
	for i := 0; i < n; i++ {
		if r.P(0.06) {
			// rotate: keep some members
			next := newSet()
			if r.P(0.7) && len(set) > 1 {
				next = append(next[:len(next)/2], set[:len(set)/2]...)
				seen := map[int]bool{}
				var dd []int
				for _, k := range next {
					if !seen[k] {
						seen[k] = true
						dd = append(dd, k)
					}
				}
				next = dd
			}
			set = next
			if r.P(0.25) && idx > 0 {
				idx -= int64(1 + r.Intn(int(idx))) // a lagging chain / restarted watcher re-reports an older index
			} else {
				idx++
			}
			add("set", idx, 0, 0, 0, xs(set))
			continue
		}
		if r.P(0.03) {
			// a flood of forged requests naming one guardian (no key needed for that), then that
			// guardian's genuine request: what was dropped must not have left anything behind
			g := int64(set[r.Intn(len(set))])
			for k := 0; k < 25+r.Intn(10); k++ {
				add("req", g, int64(r.Intn(64))<<8, int64([]int{2, 5, 7, 13}[r.Intn(4)]), int64(r.Intn(1<<16)), "")
			}
			add("req", g, int64(r.Intn(64))<<8, 0, 0, "")
			continue
		}
		signer := int64(set[r.Intn(len(set))])
		if r.P(0.15) {
			signer = int64(r.Intn(nKeys)) // possibly a non-member (also former members after a rotation)
		}
		variant := int64(0)
		if r.P(0.55) {
			variant = int64(1 + r.Intn(13))
		}
		sel := int64(r.Intn(64))
		peerIdx := int64(r.Intn(4))
		if capRun {
			signer = int64(set[0])
			peerIdx = int64(r.Intn(22))
			if r.P(0.7) {
				variant = 0
			}
		}
		op := "hb"
		if r.P(0.4) && !capRun {
			op = "req"
		}
		add(op, signer, sel<<8|peerIdx, variant, int64(r.Intn(1<<16)), "")
	}
	return p
}

// storm (race-detector tier): the gossip receive loop and the node's own heartbeat ticker both call
// into the heartbeat table. Valid heartbeats of one guardian arrive from many new peers at once,
// truly in parallel, while the table is one or two entries below its cap; whatever the
// interleaving, the cap holds afterwards.
func (w *p2pWorld) storm(seed uint64) {
	gs := w.gst.Get()
	if gs == nil {
		return
	}
	key := w.cur[int(seed%uint64(len(w.cur)))]
	addr := simAddrs[key]
	prev := runtime.GOMAXPROCS(4)
	defer runtime.GOMAXPROCS(prev)
	mk := func(i int) *gossipv1.SignedHeartbeat {
		pl := hbPayload(int64(8 * i))
		return &gossipv1.SignedHeartbeat{Heartbeat: pl, Signature: sign(key, refDigest(refHeartbeatPrefix, pl)), GuardianAddr: addr.Bytes()}
	}
	for round := 0; round < 200; round++ {
		// a fresh table for this guardian: 13 entries, then 8 new peers at the same moment
		st := node_common.NewGuardianSetState(nil)
		st.Set(gs)
		for i := 0; i < 13; i++ {
			if _, err := processSignedHeartbeat(peer.ID(fmt.Sprintf("storm-base-%d", i)), mk(i), gs, st, false); err != nil {
				w.violate("valid-heartbeat-rejected", "storm: valid heartbeat below the cap rejected: %v", err)
				return
			}
		}
		var wg sync.WaitGroup
		startC := make(chan struct{})
		msgs := make([]*gossipv1.SignedHeartbeat, 8)
		for g := range msgs {
			msgs[g] = mk(100 + g)
		}
		for g := 0; g < 8; g++ {
			wg.Add(1)
			go func(g int) {
				defer wg.Done()
				<-startC
				_, _ = processSignedHeartbeat(peer.ID(fmt.Sprintf("storm-%d-%d", round, g)), msgs[g], gs, st, false)
			}(g)
		}
		close(startC)
		wg.Wait()
		if n := len(st.GetAll()[addr]); n > 15 {
			w.violate("heartbeat-table-over-cap", "storm: after 8 concurrent heartbeats from new peers the guardian has %d node entries", n)
			return
		}
	}
	w.stats.Probe("concurrent-heartbeat-storm")
}

func (p2pHarness) Exec(p *simkit.Program) *simkit.Result {
	res := &simkit.Result{Seed: p.Seed, Prop: p.Prop, Steps: len(p.Steps)}
	w := &p2pWorld{res: res, log: &simkit.Log{}, stats: simkit.NewStats(), gst: node_common.NewGuardianSetState(nil), table: map[string]map[string][]byte{}}
	w.run(p)
	if raceBuild && len(w.cur) > 0 && len(res.Violations) == 0 {
		w.storm(p.Seed)
	}
	w.stats.ProbeN("accepted", int64(w.accepted))
	w.stats.ProbeN("rejected", int64(w.rejected))
	w.stats.ProbeN("per-guardian-cap-hit", int64(w.capHit))
	res.Faults, res.Probes = w.stats.Faults, w.stats.Probes
	res.Log, res.LogHash = w.log.Lines(), w.log.Hash()
	res.NonTrivial = w.accepted > 0 && w.rejected > 0
	return res
}

func TestVerifSim(t *testing.T) {
	if os.Getenv("VERIF_OUT") == "" {
		t.Skip("verification harness: run through /verif/bin/check")
	}
	if msg := simkit.Main(p2pHarness{}); msg != "" {
		fmt.Println("HARNESS-TROUBLE: " + msg)
		t.Fatal(msg)
	}
}
