//go:build verif && race

package p2p

const raceBuild = true
