#!/usr/bin/env python3
"""Build-time seam for spysim: sync.Mutex waits are not durable for testing/synctest, so once one
operation is stuck holding the subscription mutex every further operation would hang the bubble.
In a scratch copy of spy.go (from /repo's current working tree) the mutex operations go through a
channel-based lock supplied by the harness (same exclusion, but a blocked Lock is a durable wait).
/repo itself is not touched. Fails if the mutex is used in an unexpected way."""
import json, os, re, sys
repo, build = sys.argv[1], sys.argv[2]
src = os.path.join(repo, "node/cmd/spy/spy.go")
text = open(src).read()
code = re.sub(r"//[^\n]*", "", text)  # mentions in comments do not count
locks = len(re.findall(r"\bs\.subsMu\.Lock\(\)", code))
unlocks = len(re.findall(r"\bs\.subsMu\.Unlock\(\)", code))
other = len(re.findall(r"subsMu", code)) - locks - unlocks
if locks < 1 or unlocks < 1 or other != 1:  # the one remaining mention is the field declaration
    sys.stderr.write("spysim overlay: unexpected use of subsMu in spy.go (%d Lock, %d Unlock, %d other)\n" % (locks, unlocks, other))
    sys.exit(1)
out = os.path.join(build, "spysim_spy.go")
text = text.replace("s.subsMu.Lock()", "verifMuLock(&s.subsMu)").replace("s.subsMu.Unlock()", "verifMuUnlock(&s.subsMu)")
open(out, "w").write(text)
print(json.dumps({src: out}))
