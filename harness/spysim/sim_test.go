//go:build verif

// spysim (C20): the real spy server (Publish, SubscribeSignedVAA) inside a synctest bubble with
// fake gRPC server streams whose Send can stall and whose context can be cancelled.
// Operations are issued one at a time; an operation that has not completed at quiescence while
// some other subscriber is stalled is the violation (rule D5: sync.Mutex waits are not durable,
// so the harness never starts an operation that needs the subscription mutex while it is held).
package spy

import (
	"context"
	"encoding/hex"
	"fmt"
	"os"
	"sort"
	"strings"
	"sync"
	"sync/atomic"
	"testing"
	"testing/synctest"
	"time"

	publicrpcv1 "github.com/alephium/wormhole-fork/node/pkg/proto/publicrpc/v1"
	spyv1 "github.com/alephium/wormhole-fork/node/pkg/proto/spy/v1"
	"go.uber.org/zap"
	"google.golang.org/grpc/metadata"

	"verif.local/simkit"
	"verif.local/simkit/ref"
)

// verifMuLock / verifMuUnlock replace the subscription mutex in the scratch copy of spy.go (see
// overlay.py): a one-slot channel, so that a blocked Lock is a durable wait for synctest.
var (
	muChans   = map[*sync.Mutex]chan struct{}{}
	muChansMu sync.Mutex
)

func muChan(m *sync.Mutex) chan struct{} {
	muChansMu.Lock()
	defer muChansMu.Unlock()
	c := muChans[m]
	if c == nil {
		c = make(chan struct{}, 1)
		muChans[m] = c
	}
	return c
}

func verifMuLock(m *sync.Mutex)      { muChan(m) <- struct{}{} }
func verifMuUnlock(m *sync.Mutex)    { <-muChan(m) }
func verifMuHeld(m *sync.Mutex) bool { return len(muChan(m)) > 0 }

type emitter struct {
	chain uint16
	addr  [32]byte
}

var spyEmitters = []emitter{
	{2, [32]byte{0xaa, 1}},
	{2, [32]byte{0xaa, 2}},
	{255, [32]byte{0xaa, 1}},
	{4, [32]byte{0xbb}},
	// never named by a filter (the filter mask covers the four above): the zero values of both fields
	{0, [32]byte{}},
	// the governance emitter of the mainnet and testnet configurations lives on chain id 0 (filter bit 6)
	{0, [32]byte{31: 4}},
}

func spyVAA(e int, seq int64) []byte {
	return spyVAAPayload(e, seq, []byte(fmt.Sprintf("payload-%d", seq)))
}

func spyVAAPayload(e int, seq int64, payload []byte) []byte {
	em := spyEmitters[e%len(spyEmitters)]
	v := &ref.VAA{Version: 1, SetIndex: 0, Body: ref.Body{TimestampSec: 1_700_000_000, Nonce: uint32(seq), EmitterChain: em.chain, TargetChain: 255, Emitter: em.addr,
		Sequence: uint64(seq), Consistency: 1, Payload: payload}}
	// 1 to 13 signatures (the quorum of sets of up to 19 guardians), depending on the sequence number
	n := 1 + int(uint64(seq)%13)
	for i := 0; i < n; i++ {
		var s ref.Sig
		s.Index = uint8(i)
		s.Sig[0], s.Sig[1] = byte(seq), byte(i)
		v.Sigs = append(v.Sigs, s)
	}
	return ref.Encode(v)
}

// fakeStream is a grpc server stream whose consumer can stop reading and can go away.
type fakeStream struct {
	ctx     context.Context
	cancel  context.CancelFunc
	mu      sync.Mutex
	stalled bool
	gate    chan struct{} // closed on resume
	got     [][]byte
	inSend  bool
}

func (f *fakeStream) Send(r *spyv1.SubscribeSignedVAAResponse) error {
	f.mu.Lock()
	st, gate := f.stalled, f.gate
	f.inSend = st
	f.mu.Unlock()
	if st {
		select {
		case <-gate:
		case <-f.ctx.Done():
			return f.ctx.Err()
		}
	}
	if f.ctx.Err() != nil {
		return f.ctx.Err()
	}
	f.mu.Lock()
	f.inSend = false
	f.got = append(f.got, r.VaaBytes)
	f.mu.Unlock()
	return nil
}
func (f *fakeStream) Context() context.Context     { return f.ctx }
func (f *fakeStream) SetHeader(metadata.MD) error  { return nil }
func (f *fakeStream) SendHeader(metadata.MD) error { return nil }
func (f *fakeStream) SetTrailer(metadata.MD)       {}
func (f *fakeStream) SendMsg(m interface{}) error  { return nil }
func (f *fakeStream) RecvMsg(m interface{}) error  { return nil }

type spySub struct {
	id          int
	stream      *fakeStream
	filters     []emitter // empty = all
	badFilt     bool
	expected    [][]byte // while live and not stalled: must equal got (as multiset with multiplicity >= 1)
	mult        []int
	returned    bool
	retErr      error
	gone        bool
	everStalled bool
	optional    map[string]bool
}

func spyv1ChainID(c uint16) publicrpcv1.ChainID { return publicrpcv1.ChainID(c) }

type spyHarness struct{ t *testing.T }

func (spyHarness) Name() string { return "spysim" }

func (spyHarness) Gen(seed uint64, prop, tier string) *simkit.Program {
	r := simkit.NewRng(seed, "spysim")
	p := &simkit.Program{Cfg: map[string]int64{}}
	add := func(op string, a, b int64) { p.Steps = append(p.Steps, simkit.Step{Op: op, A: a, B: b}) }
	// most runs keep the number of publications during a stall below what fills the one-slot
	// channels, so that filter matching, registration and removal get exercised as well
	careful := r.P(0.6)
	nsub := 1 + r.Intn(4)
	for i := 0; i < nsub; i++ {
		add("sub", int64(r.Intn(128)), int64(r.Intn(12)))
	}
	n := 8 + r.Intn(40)
	seq := int64(0)
	stalled := 0
	pubsInStall := 0
	for i := 0; i < n; i++ {
		switch r.Pick(10, 2, 2, 2, 2, 1) {
		case 0:
			if careful && stalled > 0 && pubsInStall >= 2 {
				continue
			}
			seq++
			if r.P(0.08) {
				p.Steps = append(p.Steps, simkit.Step{Op: "pub", A: int64(r.Intn(len(spyEmitters))), B: seq, C: 1})
			} else {
				add("pub", int64(r.Intn(len(spyEmitters))), seq)
			}
			if stalled > 0 {
				pubsInStall++
			}
			if r.P(0.15) && !(careful && stalled > 0) {
				// the same signed VAA is gossiped again (guardians re-broadcast): a publication like any other
				p.Steps = append(p.Steps, p.Steps[len(p.Steps)-1])
				if stalled > 0 {
					pubsInStall++
				}
			}
		case 1:
			add("sub", int64(r.Intn(128)), int64(r.Intn(12)))
		case 2:
			add("stall", int64(r.Intn(6)), 0)
			stalled++
		case 3:
			add("resume", int64(r.Intn(6)), 0)
			stalled = 0
			pubsInStall = 0
		case 4:
			if stalled == 0 && r.P(0.4) {
				add("discrace", int64(r.Intn(6)), int64(r.Intn(len(spyEmitters))))
			} else {
				add("disc", int64(r.Intn(6)), 0)
			}
		case 5:
			add("pubbad", int64(r.Intn(40)), 0)
		}
	}
	if r.P(0.7) {
		add("resume", -1, 0)
		seq++
		add("pub", int64(r.Intn(len(spyEmitters))), seq)
	}
	return p
}

func (h spyHarness) Exec(p *simkit.Program) *simkit.Result {
	res := &simkit.Result{Seed: p.Seed, Prop: p.Prop, Steps: len(p.Steps)}
	log := &simkit.Log{}
	stats := simkit.NewStats()
	step := 0
	violate := func(key, format string, a ...interface{}) {
		for _, v := range res.Violations {
			if v.Key == key {
				return
			}
		}
		res.Violations = append(res.Violations, simkit.Violation{Prop: "C20", Key: key, Step: step, Detail: fmt.Sprintf(format, a...)})
	}
	stuck := false
	delivered, pubs, filteredOut := 0, 0, 0
	body := func(t *testing.T) {
		start := time.Now()
		muChansMu.Lock()
		muChans = map[*sync.Mutex]chan struct{}{}
		muChansMu.Unlock()
		s := newSpyServer(zap.NewNop())
		var subs []*spySub
		live := func() []*spySub {
			var l []*spySub
			for _, x := range subs {
				if !x.gone {
					l = append(l, x)
				}
			}
			return l
		}
		anyStalled := func(except *spySub) bool {
			for _, x := range subs {
				if x != except && !x.gone && x.stream.stalled {
					return true
				}
			}
			return false
		}
		lockFree := func(what string) bool {
			if verifMuHeld(&s.subsMu) {
				violate(what, "the subscription mutex is held at quiescence: an earlier operation is stuck")
				stuck = true
				return false
			}
			return true
		}
		matches := func(x *spySub, e emitter) int {
			if len(x.filters) == 0 && !x.badFilt {
				return 1
			}
			n := 0
			for _, f := range x.filters {
				if f == e {
					n++
				}
			}
			return n
		}
		checkStreams := func() {
			for _, x := range live() {
				if x.stream.stalled {
					continue
				}
				x.stream.mu.Lock()
				got := append([][]byte(nil), x.stream.got...)
				x.stream.mu.Unlock()
				// expected: each matching VAA in publication order, with multiplicity 1..mult
				gi := 0
				skipOptional := func() {
					for gi < len(got) && x.optional[string(got[gi])] {
						gi++
					}
				}
				for k := 0; k < len(x.expected); {
					// the same signed VAA may be published several times in a row (re-gossiped): such a
					// run of equal publications is judged as a whole
					e := x.expected[k]
					j, maxC := k, 0
					for j < len(x.expected) && string(x.expected[j]) == string(e) {
						maxC += x.mult[j]
						j++
					}
					c := 0
					skipOptional()
					for gi < len(got) && string(got[gi]) == string(e) {
						gi++
						c++
					}
					if c < j-k {
						violate("matching-vaa-not-delivered", "subscriber %d (filters %v) did not receive matching VAA #%d (got %d of %d expected)", x.id, x.filters, k, len(got), len(x.expected))
						return
					}
					if c > maxC {
						violate("vaa-delivered-too-often", "subscriber %d received a VAA %d times", x.id, c)
					}
					k = j
				}
				skipOptional()
				if gi != len(got) {
					violate("non-matching-vaa-delivered", "subscriber %d (filters %v) received a VAA that matches none of its filters or is out of order", x.id, x.filters)
				}
			}
		}
		for i, st := range p.Steps {
			step = i
			if stuck {
				break
			}
			switch st.Op {
			case "sub":
				if !lockFree("registration-blocked") {
					break
				}
				x := &spySub{id: len(subs)}
				ctx, cancel := context.WithCancel(context.Background())
				x.stream = &fakeStream{ctx: ctx, cancel: cancel, gate: make(chan struct{})}
				req := &spyv1.SubscribeSignedVAARequest{}
				mask := st.A & 15
				if st.A&48 == 48 {
					mask = 0
				}
				for e := 0; e < 4; e++ {
					if mask&(1<<uint(e)) != 0 {
						x.filters = append(x.filters, spyEmitters[e])
					}
				}
				if st.A&64 != 0 && st.A&48 != 48 {
					x.filters = append(x.filters, spyEmitters[5])
				}
				if st.A&16 != 0 && len(x.filters) > 0 {
					x.filters = append(x.filters, x.filters[0]) // duplicate filter
				}
				for _, f := range x.filters {
					// clients write the address in lower-case, upper-case or mixed-case hex
					hx := hex.EncodeToString(f.addr[:])
					switch x.id % 3 {
					case 1:
						hx = strings.ToUpper(hx)
					case 2:
						hx = strings.ToUpper(hx[:2]) + hx[2:]
					}
					req.Filters = append(req.Filters, &spyv1.FilterEntry{Filter: &spyv1.FilterEntry_EmitterFilter{EmitterFilter: &spyv1.EmitterFilter{
						ChainId: spyv1ChainID(f.chain), EmitterAddress: hx}}})
				}
				if st.A&32 != 0 && mask != 0 {
					// a filter that matches nothing published (right address, other chain)
					x.badFilt = true
					req.Filters = append(req.Filters, &spyv1.FilterEntry{Filter: &spyv1.FilterEntry_EmitterFilter{EmitterFilter: &spyv1.EmitterFilter{
						ChainId: spyv1ChainID(10), EmitterAddress: hex.EncodeToString(spyEmitters[0].addr[:])}}})
				}
				unknownKind := st.B == 7
				if unknownKind {
					// a filter entry of a kind this server does not know (an empty entry on the wire): it
					// names no emitter, so whatever the server makes of the subscription, nothing may be
					// delivered on the strength of that entry
					req.Filters = append(req.Filters, &spyv1.FilterEntry{})
					if len(x.filters) == 0 {
						x.badFilt = true
					}
					stats.Fault("filter-entry-of-unknown-kind")
				}
				nBefore := len(s.subs)
				go func() {
					x.retErr = s.SubscribeSignedVAA(req, x.stream)
					x.returned = true
				}()
				synctest.Wait()
				if x.returned && unknownKind {
					log.Add("sub with unknown filter kind refused")
					break // refusing such a subscription is fine
				}
				if x.returned {
					violate("subscription-rejected", "valid subscription returned at once: %v", x.retErr)
					break
				}
				if !lockFree("registration-blocked") {
					break
				}
				if len(s.subs) != nBefore+1 {
					violate("registration-blocked", "subscription was not registered (stalled subscriber present: %v)", anyStalled(nil))
				}
				subs = append(subs, x)
				log.Add("sub %d filters=%d", x.id, len(x.filters))
			case "pub", "pubbad":
				if st.Op == "pubbad" && anyStalled(nil) {
					// who receives undecodable bytes depends on Go's map order; with a stalled subscriber that
					// would change channel fill levels nondeterministically (rule D3), so it is not injected then
					log.Add("pubbad skipped")
					break
				}
				if !lockFree("publish-blocked-by-stalled-subscriber") {
					break
				}
				var b []byte
				var em emitter
				if st.Op == "pub" {
					em = spyEmitters[int(st.A)%len(spyEmitters)]
					b = spyVAA(int(st.A), st.B)
					if st.C == 1 {
						b = spyVAAPayload(int(st.A), st.B, nil) // signed VAA with an empty payload: vaa.Unmarshal refuses it
						stats.Fault("empty-payload-vaa")
					}
				} else {
					b = []byte(strings.Repeat("x", int(st.A)))
					stats.Fault("undecodable-publication")
				}
				done := false
				go func() {
					_ = s.Publish(b)
					done = true
				}()
				synctest.Wait()
				if !done {
					if anyStalled(nil) {
						violate("publish-blocked-by-stalled-subscriber", "Publish did not return with a stalled subscriber present: delivery to all other subscribers, registration and removal are blocked behind it")
					} else {
						violate("publish-blocked-without-stalled-subscriber", "Publish did not return although every live subscriber is reading (a subscription of a departed client is still registered?)")
					}
					stuck = true
					break
				}
				if st.Op == "pub" {
					pubs++
					for _, x := range live() {
						m := matches(x, em)
						if st.C == 1 && (len(x.filters) > 0 || x.badFilt) {
							// filters are evaluated on the decoded VAA; whether a filtered subscriber whose
							// filter names this VAA's emitter gets a VAA the decoder refuses is not stated -
							// every unfiltered one must get it, and nobody whose filters name other emitters may
							if m > 0 {
								if x.optional == nil {
									x.optional = map[string]bool{}
								}
								x.optional[string(b)] = true
							} else {
								filteredOut++
							}
							continue
						}
						if m > 0 {
							x.expected = append(x.expected, b)
							x.mult = append(x.mult, m)
							delivered++
						} else {
							filteredOut++
						}
					}
					checkStreams()
				} else {
					// undecodable bytes are not a signed VAA: the statement does not say who gets them.
					// Unfiltered subscribers may or may not (Go map order decides), now or after a resume.
					for _, x := range live() {
						if len(x.filters) == 0 && !x.badFilt {
							if x.optional == nil {
								x.optional = map[string]bool{}
							}
							x.optional[string(b)] = true
						}
					}
					checkStreams()
				}
				log.Add("%s e=%d seq=%d", st.Op, st.A, st.B)
			case "stall", "resume":
				l := live()
				if len(l) == 0 {
					break
				}
				for k, x := range l {
					if st.A >= 0 && k != int(st.A)%len(l) {
						continue
					}
					x.stream.mu.Lock()
					if st.Op == "stall" && !x.stream.stalled {
						x.stream.stalled = true
						x.stream.gate = make(chan struct{})
						x.everStalled = true
						stats.Fault("subscriber-stall")
					} else if st.Op == "resume" && x.stream.stalled {
						x.stream.stalled = false
						close(x.stream.gate)
						stats.Fault("subscriber-resume")
					}
					x.stream.mu.Unlock()
				}
				synctest.Wait()
				if st.Op == "resume" {
					synctest.Wait()
					checkStreams()
				}
				log.Add("%s %d", st.Op, st.A)
			case "discrace":
				// a client goes away while Publish is in the middle of its walk over the subscribers
				// (parked on another, briefly slow one); the slow one then reads on. Nobody may crash,
				// the slow subscriber gets everything in order and the departed one is removed.
				if !lockFree("registration-blocked") || anyStalled(nil) {
					break
				}
				var plain []*spySub
				for _, x := range live() {
					if len(x.filters) == 0 && !x.badFilt {
						plain = append(plain, x)
					}
				}
				if len(plain) < 2 {
					break
				}
				slow, leaver := plain[int(st.A)%len(plain)], plain[(int(st.A)+1)%len(plain)]
				slow.stream.mu.Lock()
				slow.stream.stalled, slow.stream.gate, slow.everStalled = true, make(chan struct{}), true
				slow.stream.mu.Unlock()
				em := spyEmitters[int(st.B)%len(spyEmitters)]
				var pend []bool
				for k := 0; k < 3; k++ {
					b := spyVAA(int(st.B), 100000+int64(i)*10+int64(k))
					for _, x := range live() {
						if m := matches(x, em); m > 0 {
							x.expected = append(x.expected, b)
							x.mult = append(x.mult, m)
						}
					}
					pend = append(pend, false)
					kk := k
					go func() {
						_ = s.Publish(b)
						pend[kk] = true
					}()
					synctest.Wait()
				}
				// the first two went through (one in the slow client's hands, one in its queue), the
				// third is parked inside Publish
				leaver.stream.cancel()
				synctest.Wait()
				leaver.gone = true
				slow.stream.mu.Lock()
				slow.stream.stalled = false
				close(slow.stream.gate)
				slow.stream.mu.Unlock()
				synctest.Wait()
				synctest.Wait()
				stats.Fault("disconnect-during-publish")
				if !pend[0] || !pend[1] || !pend[2] {
					violate("publish-never-completed-after-resume", "a publication that waited for a slow subscriber did not complete after that subscriber read on (another client had disconnected meanwhile)")
					stuck = true
					break
				}
				if !lockFree("removal-blocked") {
					break
				}
				if !leaver.returned {
					violate("removal-blocked", "subscriber %d disconnected during a publication and its handler never returned", leaver.id)
				}
				checkStreams()
				log.Add("discrace slow=%d leaver=%d", slow.id, leaver.id)
			case "disc":
				l := live()
				if len(l) == 0 {
					break
				}
				x := l[int(st.A)%len(l)]
				if !lockFree("removal-blocked") {
					break
				}
				nBefore := len(s.subs)
				x.stream.cancel()
				synctest.Wait()
				stats.Fault("subscriber-disconnect")
				if !lockFree("removal-blocked") {
					break
				}
				if !x.returned || len(s.subs) != nBefore-1 {
					violate("removal-blocked", "disconnected subscriber %d was not removed (returned=%v, other stalled=%v)", x.id, x.returned, anyStalled(x))
				}
				x.gone = true
				log.Add("disc %d", x.id)
			}
			log.Cut(fmt.Sprintf("%d %s", i, st))
		}
		if raceBuild && !stuck && len(res.Violations) == 0 {
			// race-detector tier only: really concurrent publishers and subscription churn. The churning
			// subscribers use a filter that matches nothing, so no publication can block on them (that
			// would be the open known finding); what is exercised is the registry being read by Publish
			// while registrations and removals write it.
			for _, x := range subs {
				x.stream.mu.Lock()
				if x.stream.stalled {
					x.stream.stalled = false
					close(x.stream.gate)
				}
				x.stream.mu.Unlock()
			}
			synctest.Wait()
			var wg sync.WaitGroup
			var churnGot atomic.Int32
			for pi := 0; pi < 3; pi++ {
				wg.Add(1)
				go func(pi int) {
					defer wg.Done()
					for k := 0; k < 25; k++ {
						_ = s.Publish(spyVAA(pi, int64(10000+100*pi+k)))
					}
				}(pi)
			}
			for ci := 0; ci < 3; ci++ {
				wg.Add(1)
				go func(ci int) {
					defer wg.Done()
					for k := 0; k < 12; k++ {
						ctx, cancel := context.WithCancel(context.Background())
						st := &fakeStream{ctx: ctx, cancel: cancel, gate: make(chan struct{})}
						req := &spyv1.SubscribeSignedVAARequest{Filters: []*spyv1.FilterEntry{{Filter: &spyv1.FilterEntry_EmitterFilter{EmitterFilter: &spyv1.EmitterFilter{
							ChainId: spyv1ChainID(9999), EmitterAddress: hex.EncodeToString(spyEmitters[0].addr[:])}}}}}
						done := make(chan struct{})
						go func() { _ = s.SubscribeSignedVAA(req, st); close(done) }()
						time.Sleep(time.Duration(1+ci) * time.Microsecond)
						cancel()
						<-done
						st.mu.Lock()
						n := len(st.got)
						st.mu.Unlock()
						if n > 0 {
							churnGot.Add(int32(n))
						}
					}
				}(ci)
			}
			wg.Wait()
			if n := churnGot.Load(); n > 0 {
				violate("non-matching-vaa-delivered", "subscribers whose only filter names an emitter nobody publishes for received %d VAAs during concurrent publication", n)
			}
			stats.Probe("concurrent-storm")
		}
		res.SimNs = int64(time.Since(start))
		if !stuck {
			for _, x := range subs {
				x.stream.mu.Lock()
				if x.stream.stalled {
					x.stream.stalled = false
					close(x.stream.gate)
				}
				x.stream.mu.Unlock()
				x.stream.cancel()
			}
			synctest.Wait()
		}
	}
	func() {
		defer func() {
			if r := recover(); r != nil {
				if strings.Contains(fmt.Sprint(r), "deadlock") && (stuck || len(res.Violations) > 0) {
					return
				}
				res.HarnessErr = "bubble: " + fmt.Sprint(r)
			}
		}()
		synctest.Test(h.t, body)
	}()
	stats.ProbeN("publications", int64(pubs))
	stats.ProbeN("expected-deliveries", int64(delivered))
	stats.ProbeN("filtered-out", int64(filteredOut))
	res.Faults, res.Probes = stats.Faults, stats.Probes
	res.Log, res.LogHash = log.Lines(), log.Hash()
	res.NonTrivial = delivered > 0 && (filteredOut > 0 || len(stats.Faults) > 0)
	_ = sort.Strings
	return res
}

func TestVerifSim(t *testing.T) {
	if os.Getenv("VERIF_OUT") == "" {
		t.Skip("verification harness: run through /verif/bin/check")
	}
	if msg := simkit.Main(spyHarness{t}); msg != "" {
		fmt.Println("HARNESS-TROUBLE: " + msg)
		t.Fatal(msg)
	}
}
