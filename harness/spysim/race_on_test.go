//go:build verif && race

package spy

const raceBuild = true
