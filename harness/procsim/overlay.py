#!/usr/bin/env python3
"""Build-time seams for procsim. First: GuardianSetState's mutex (node/pkg/common/guardianset.go) becomes
a channel-based lock in a scratch copy taken from /repo's current working tree. The state is shared
between the processor's Run loop and the gossip side (heartbeats); a goroutine parked on a
sync.Mutex is not durably blocked for testing/synctest, so a lock that is never released would
hang the bubble instead of showing up as a processor that stops consuming its inputs.
/repo is not touched. If the declaration is not found exactly once the file is left as it is (the
checks then run on the unmodified file); the race-detector builds always use the unmodified file."""
import json, os, re, sys
repo, build = sys.argv[1], sys.argv[2]
# Second seam (all builds): the Cloud KMS signer's conversion of a DER signature into the node's
# 65-byte form is package-private; a one-line file added to package ecdsasigner hands it to the
# harness, whose signer then runs every signature through it (the KMS gRPC call itself is stubbed).
# If the function is not there in the expected shape the variable stays nil and the harness signs
# without it.
kms_src = os.path.join(repo, "node/pkg/ecdsasigner/cloudkms.go")
kms_ok = False
try:
    kms_ok = re.search(r"\nfunc parseSignature\(\w+ \[\]byte, \w+ \[\]byte, \w+ ethcommon\.Address\) \(\[\]byte, error\) \{", open(kms_src).read()) is not None
except OSError:
    pass
kms = os.path.join(build, "procsim_kmsparse.go")
open(kms, "w").write("""package ecdsasigner

import ethcommon "github.com/ethereum/go-ethereum/common"

// VerifParseKMSSignature is the Cloud KMS signer's signature conversion (nil: not found in this tree).
var VerifParseKMSSignature func(kmsSignature []byte, digest []byte, pubKey ethcommon.Address) ([]byte, error)%s
""" % (" = parseSignature" if kms_ok else ""))
extra = {os.path.join(repo, "node/pkg/ecdsasigner/zz_verif_kmsparse.go"): kms}
if os.environ.get("VERIF_RACE") == "1":
    print(json.dumps(extra))
    sys.exit(0)
src = os.path.join(repo, "node/pkg/common/guardianset.go")
text = open(src).read()
decl = re.findall(r"\bmu\s+sync\.(?:RW)?Mutex\b", text)
if len(decl) != 1:
    print(json.dumps(extra))
    sys.exit(0)
text = re.sub(r"\bmu(\s+)sync\.(?:RW)?Mutex\b", r"mu\1verifChanMutex", text)
if not re.search(r"\bsync\.", text):
    text = text.replace('\t"sync"\n', "")
out = os.path.join(build, "procsim_guardianset.go")
open(out, "w").write(text)
lock = os.path.join(build, "procsim_chanmutex.go")
open(lock, "w").write('''package common

import "sync"

// verifChanMutex: same exclusion as sync.Mutex / sync.RWMutex (readers exclude each other too),
// but a blocked Lock is a channel operation, i.e. a durable wait for testing/synctest.
type verifChanMutex struct {
	once sync.Once
	ch   chan struct{}
}

func (m *verifChanMutex) c() chan struct{} {
	m.once.Do(func() { m.ch = make(chan struct{}, 1) })
	return m.ch
}
func (m *verifChanMutex) Lock()    { m.c() <- struct{}{} }
func (m *verifChanMutex) Unlock()  { <-m.c() }
func (m *verifChanMutex) RLock()   { m.Lock() }
func (m *verifChanMutex) RUnlock() { m.Unlock() }
''')
extra.update({src: out, os.path.join(repo, "node/pkg/common/zz_verif_chanmutex.go"): lock})
print(json.dumps(extra))
