#!/usr/bin/env python3
"""Build-time seam for procsim: GuardianSetState's mutex (node/pkg/common/guardianset.go) becomes
a channel-based lock in a scratch copy taken from /repo's current working tree. The state is shared
between the processor's Run loop and the gossip side (heartbeats); a goroutine parked on a
sync.Mutex is not durably blocked for testing/synctest, so a lock that is never released would
hang the bubble instead of showing up as a processor that stops consuming its inputs.
/repo is not touched. If the declaration is not found exactly once the file is left as it is (the
checks then run on the unmodified file); the race-detector builds always use the unmodified file."""
import json, os, re, sys
repo, build = sys.argv[1], sys.argv[2]
if os.environ.get("VERIF_RACE") == "1":
    print("{}")
    sys.exit(0)
src = os.path.join(repo, "node/pkg/common/guardianset.go")
text = open(src).read()
decl = re.findall(r"\bmu\s+sync\.(?:RW)?Mutex\b", text)
if len(decl) != 1:
    print("{}")
    sys.exit(0)
text = re.sub(r"\bmu(\s+)sync\.(?:RW)?Mutex\b", r"mu\1verifChanMutex", text)
if not re.search(r"\bsync\.", text):
    text = text.replace('\t"sync"\n', "")
out = os.path.join(build, "procsim_guardianset.go")
open(out, "w").write(text)
lock = os.path.join(build, "procsim_chanmutex.go")
open(lock, "w").write('''package common

import "sync"

// verifChanMutex: same exclusion as sync.Mutex / sync.RWMutex (readers exclude each other too),
// but a blocked Lock is a channel operation, i.e. a durable wait for testing/synctest.
type verifChanMutex struct {
	once sync.Once
	ch   chan struct{}
}

func (m *verifChanMutex) c() chan struct{} {
	m.once.Do(func() { m.ch = make(chan struct{}, 1) })
	return m.ch
}
func (m *verifChanMutex) Lock()    { m.c() <- struct{}{} }
func (m *verifChanMutex) Unlock()  { <-m.c() }
func (m *verifChanMutex) RLock()   { m.Lock() }
func (m *verifChanMutex) RUnlock() { m.Unlock() }
''')
print(json.dumps({src: out, os.path.join(repo, "node/pkg/common/zz_verif_chanmutex.go"): lock}))
