//go:build verif

// procsim: deterministic simulator around the real guardian Processor (package processor).
// Real code in the loop: handleMessage / handleObservation / handleInboundSignedVAAWithQuorum /
// handleInjection / handleCleanup / Run, vaa, db (badger on disk), GuardianSetState, reporter.
// Simulated: the chain watchers (scripted MessagePublications), the gossip network (scripted
// honest and byzantine signers), the clock (testing/synctest bubble).
// Serves C01, C02, C03 (observation half), C13, C14. See /verif/DESIGN.md section 3.
package processor

import (
	"bytes"
	"context"
	"crypto/ecdsa"
	"encoding/asn1"
	"encoding/binary"
	"encoding/hex"
	"fmt"
	"math/big"
	"net/http"
	"os"
	"path/filepath"
	"reflect"
	"runtime/debug"
	"sort"
	"strconv"
	"strings"
	"sync"
	"sync/atomic"
	"testing"
	"testing/synctest"
	"time"
	"unsafe"

	"github.com/alephium/wormhole-fork/node/pkg/common"
	"github.com/alephium/wormhole-fork/node/pkg/db"
	"github.com/alephium/wormhole-fork/node/pkg/ecdsasigner"
	"github.com/alephium/wormhole-fork/node/pkg/notify/discord"
	gossipv1 "github.com/alephium/wormhole-fork/node/pkg/proto/gossip/v1"
	"github.com/alephium/wormhole-fork/node/pkg/reporter"
	"github.com/alephium/wormhole-fork/node/pkg/supervisor"
	"github.com/alephium/wormhole-fork/node/pkg/vaa"
	"github.com/dgraph-io/badger/v3"
	ethcommon "github.com/ethereum/go-ethereum/common"
	"github.com/ethereum/go-ethereum/crypto"
	"github.com/libp2p/go-libp2p/core/peer"
	"go.uber.org/zap"
	"google.golang.org/protobuf/proto"

	"verif.local/simkit"
	"verif.local/simkit/ref"
)

// ---------------------------------------------------------------------------------------------
// fixed world: keys, messages

const nKeys = 26

var (
	simKeys  [nKeys]*ecdsa.PrivateKey
	simAddrs [nKeys]ethcommon.Address
	sigCache = map[string][]byte{}
	sigMu    sync.Mutex

	govChain   = vaa.ChainID(255)
	govEmitter = vaa.Address{0, 0, 0, 0, 0, 0, 0, 0, 0, 0, 0, 0, 0, 0, 0, 0, 0, 0, 0, 0, 0, 0, 0, 0, 0, 0, 0, 0, 0, 0, 0, 4}
	emitterA   = vaa.Address{0xaa, 1, 2, 3, 4, 5, 6, 7, 8, 9, 10, 11, 12, 13, 14, 15, 16, 17, 18, 19, 20, 21, 22, 23, 24, 25, 26, 27, 28, 29, 30, 0x01}
	emitterB   = vaa.Address{0xbb, 1, 2, 3, 4, 5, 6, 7, 8, 9, 10, 11, 12, 13, 14, 15, 16, 17, 18, 19, 20, 21, 22, 23, 24, 25, 26, 27, 28, 29, 30, 0x02}
)

func init() {
	ref.Keccak256 = crypto.Keccak256
	ref.Recover = func(hash, sig []byte) ([]byte, error) {
		pk, err := crypto.Ecrecover(hash, sig)
		if err != nil {
			return nil, err
		}
		return crypto.Keccak256(pk[1:])[12:], nil
	}
	for i := 0; i < nKeys; i++ {
		seed := crypto.Keccak256([]byte("verif-guardian-key"), []byte{byte(i)})
		k, err := crypto.ToECDSA(seed)
		if err != nil {
			panic(err)
		}
		simKeys[i] = k
		simAddrs[i] = crypto.PubkeyToAddress(k.PublicKey)
	}
}

func signWith(key int, digest []byte) []byte {
	ck := string(rune(key)) + string(digest)
	sigMu.Lock()
	s, ok := sigCache[ck]
	sigMu.Unlock()
	if ok {
		return append([]byte(nil), s...)
	}
	s, err := crypto.Sign(digest, simKeys[key])
	if err != nil {
		panic(err)
	}
	sigMu.Lock()
	sigCache[ck] = s
	sigMu.Unlock()
	return append([]byte(nil), s...)
}

// simSigner stands for the node's signer. With kms set it is the local key behind the conversion
// code of the Cloud KMS signer: the signature is DER-encoded as the KMS API returns it and turned
// back into the 65-byte form by the node's own parseSignature (only the gRPC call is stubbed).
type simSigner struct {
	key int
	kms bool
}

func (s simSigner) Sign(d []byte) ([]byte, error) {
	sig := signWith(s.key, d)
	if s.kms && ecdsasigner.VerifParseKMSSignature != nil && len(sig) == 65 {
		der, err := asn1.Marshal(struct{ R, S *big.Int }{new(big.Int).SetBytes(sig[:32]), new(big.Int).SetBytes(sig[32:64])})
		if err != nil {
			panic(err)
		}
		return ecdsasigner.VerifParseKMSSignature(der, d, simAddrs[s.key])
	}
	return sig, nil
}
func (s simSigner) PublicKey() ecdsa.PublicKey { return simKeys[s.key].PublicKey }

// msgDesc decodes a message descriptor (see DESIGN.md 3, "Steps").
type msgDesc struct {
	m                      int64
	id, pc, tc, ec, tg, bv int
}

func decodeMsg(m int64) msgDesc {
	if m < 0 {
		m = -m
	}
	return msgDesc{m: m, id: int(m & 15), pc: int(m>>4) & 7, tc: int(m>>7) & 3, ec: int(m>>9) & 3, tg: int(m>>11) & 3, bv: int(m>>13) & 1}
}

func encodeMsg(id, pc, tc, ec, tg, bv int) int64 {
	return int64(id&15) | int64(pc&7)<<4 | int64(tc&3)<<7 | int64(ec&3)<<9 | int64(tg&3)<<11 | int64(bv&1)<<13
}

func (d msgDesc) payload() []byte {
	fill := func(n int) []byte {
		b := make([]byte, n)
		for i := range b {
			b[i] = byte(i*7 + d.id + 3*d.bv)
		}
		return b
	}
	switch d.pc {
	case 0:
		return []byte{97, 97, 97, 97, 97, byte(97 + d.id)}
	case 1:
		return []byte{}
	case 2:
		return []byte{byte(d.id)}
	case 3:
		return fill(999)
	case 4:
		return fill(1000)
	case 5:
		return fill(1001)
	case 6:
		return fill(5000)
	default:
		b := fill(133)
		b[0] = 1
		return b
	}
}

// bubbleEpoch is where testing/synctest starts its fake clock (2000-01-01T00:00:00Z); block
// timestamps of ordinary messages lie an hour before that, i.e. in the node's recent past.
const bubbleEpoch = 946684800

func (d msgDesc) timestamp() time.Time {
	switch d.tc {
	case 0:
		return time.Unix(bubbleEpoch-3600+int64(d.id), 0)
	case 1:
		return time.Unix(0, 0)
	case 2:
		return time.Unix(bubbleEpoch-3600+int64(d.id), 500_000_000)
	default:
		return time.Time{}
	}
}

func (d msgDesc) emitter() (vaa.ChainID, vaa.Address) {
	switch d.ec {
	case 0:
		return 255, emitterA
	case 1:
		return 2, emitterB
	case 2:
		return govChain, govEmitter
	default:
		return 2, emitterA
	}
}

func (d msgDesc) target() vaa.ChainID { return []vaa.ChainID{2, 255, 0, 25}[d.tg] }

func (d msgDesc) sequence() uint64 {
	switch d.id {
	case 14:
		return 1 << 63
	case 15:
		return ^uint64(0)
	}
	return uint64(d.id)
}

func (d msgDesc) nonce() uint32 { return uint32(1000 + d.id + 7*d.bv) }

func (d msgDesc) publication() *common.MessagePublication {
	ec, ea := d.emitter()
	return &common.MessagePublication{
		// one message = one originating transaction: descriptors that differ only in the sub-second
		// part of the timestamp are the same message (same digest) and share the transaction
		TxHash:           ethcommon.BytesToHash(crypto.Keccak256([]byte("tx"), d.digest())),
		Timestamp:        d.timestamp(),
		Nonce:            d.nonce(),
		Sequence:         d.sequence(),
		ConsistencyLevel: uint8(10 + d.id),
		EmitterChain:     ec,
		TargetChain:      d.target(),
		EmitterAddress:   ea,
		Payload:          d.payload(),
	}
}

func (d msgDesc) refBody() *ref.Body {
	ec, ea := d.emitter()
	return &ref.Body{
		TimestampSec: uint32(d.timestamp().Unix()),
		Nonce:        d.nonce(),
		EmitterChain: uint16(ec),
		TargetChain:  uint16(d.target()),
		Emitter:      ea,
		Sequence:     d.sequence(),
		Consistency:  uint8(10 + d.id),
		Payload:      d.payload(),
	}
}

func (d msgDesc) vaaID() vaa.VAAID {
	ec, ea := d.emitter()
	return vaa.VAAID{EmitterChain: ec, EmitterAddress: ea, TargetChain: d.target(), Sequence: d.sequence()}
}

func (d msgDesc) idKey() string { return fmt.Sprintf("%d/%d/%d", d.ec, d.tg, d.id) }

func (d msgDesc) isGov() bool { return d.ec == 2 }

func (d msgDesc) digest() []byte { return ref.Digest(ref.EncodeBody(d.refBody())) }

// ---------------------------------------------------------------------------------------------
// model

type setDef struct {
	index uint32
	keys  []int // indices into simKeys
}

func (s *setDef) addrs() [][]byte {
	out := make([][]byte, len(s.keys))
	for i, k := range s.keys {
		out[i] = simAddrs[k].Bytes()
	}
	return out
}

func (s *setDef) has(addr []byte) bool {
	for _, k := range s.keys {
		if bytes.Equal(simAddrs[k].Bytes(), addr) {
			return true
		}
	}
	return false
}

func (s *setDef) String() string {
	if s == nil {
		return "nil"
	}
	return fmt.Sprintf("#%d%v", s.index, s.keys)
}

func parseSet(index int64, x string) *setDef {
	s := &setDef{index: uint32(index)}
	for _, f := range strings.Split(x, ",") {
		f = strings.TrimSpace(f)
		if f == "" {
			continue
		}
		n, err := strconv.Atoi(f)
		if err != nil || n < 0 || n >= nKeys {
			continue
		}
		dup := false
		for _, k := range s.keys {
			if k == n {
				dup = true
			}
		}
		if !dup { // assumption: guardian sets have pairwise distinct keys
			s.keys = append(s.keys, n)
		}
	}
	return s
}

type digestModel struct {
	hash         string
	desc         msgDesc
	observed     bool
	injected     bool
	snapshot     *setDef // set in force at the latest own observation in this lifetime (may be nil for injections)
	body         []byte
	delivered    map[string]bool // addr(hex) -> a valid signature over this digest was delivered (any time in this lifetime)
	accepted     map[string]bool // addr(hex) -> delivered while signer was a member of the set applicable at delivery
	published    int
	firstSeen    time.Time
	firstObsMsg  []byte // latest own SignedObservation gossip bytes emitted for this digest
	obsKind      string
	lastRetry    time.Time
	retries      int
	everDue      bool
	dueMissed    int
	overdueSince time.Time
	cat          string
	publishedAt  time.Time
	hadStoreAt   bool
}

type world struct {
	t     *testing.T
	prog  *simkit.Program
	res   *simkit.Result
	log   *simkit.Log
	stats *simkit.Stats
	prop  string

	dir     string
	db      *db.Database
	p       *Processor
	own     int
	loop    bool
	reqCap  int
	supCtx  context.Context
	runCtx  context.Context
	cancel  context.CancelFunc
	runDone chan struct{}
	dead    atomic.Bool // set by whichever goroutine sees the processor die
	stepMu  sync.Mutex

	lockC     chan *common.MessagePublication
	setC      chan *common.GuardianSet
	sendC     chan []byte
	obsvC     chan *gossipv1.SignedObservation
	reqC      chan *gossipv1.ObservationRequest
	injectC   chan *vaa.VAA
	signedInC chan *gossipv1.SignedVAAWithQuorum
	quorumC   chan *vaa.VAA

	outMu    sync.Mutex
	out      [][]byte
	stopDr   chan struct{}
	parked   []*gossipv1.SignedObservation
	panicked atomic.Pointer[simkit.Violation]

	// model
	sets     []*setDef // history in order of set steps
	cur      *setDef
	curGS    *common.GuardianSet // what the processor was last handed (loop mode hand-offs)
	digests  map[string]*digestModel
	universe map[string]msgDesc // idKey -> some desc with that id
	store    map[string][]byte  // idKey -> bytes last seen in store
	start    time.Time
	stepIdx  int
	curStep  simkit.Step

	maxDt         time.Duration
	everPublished map[string]int
	dbDown        bool
	stalled       bool
	newParked     int
	holdQueue     bool
	hctx          context.Context
	hcancel       context.CancelFunc
	pastSummaries string
	deliveryStep  bool

	nPublished, nRejected, nAcceptedObs, nStoredInbound, nRetries, nExpired, nEarlyObs int
}

func (w *world) violate(prop, key, format string, a ...interface{}) {
	v := simkit.Violation{Prop: prop, Key: key, Step: w.stepIdx, Detail: fmt.Sprintf(format, a...)}
	for _, e := range w.res.Violations {
		if e.Prop == prop && e.Key == key {
			return
		}
	}
	w.res.Violations = append(w.res.Violations, v)
	w.log.Add("VIOLATION %s %s", prop, key)
}

var (
	supOnce sync.Once
	supCtxG context.Context
)

// supervisorContext returns a context that carries a real supervisor node (needed by
// supervisor.Logger in the handlers). It is created once, outside any bubble.
func supervisorContext() context.Context {
	supOnce.Do(func() {
		ch := make(chan context.Context, 1)
		supervisor.New(context.Background(), zap.NewNop(), func(ctx context.Context) error {
			ch <- ctx
			supervisor.Signal(ctx, supervisor.SignalHealthy)
			<-ctx.Done()
			return ctx.Err()
		})
		supCtxG = <-ch
	})
	return supCtxG
}

func (w *world) newProcessor() {
	w.lockC = make(chan *common.MessagePublication)
	w.setC = make(chan *common.GuardianSet)
	w.sendC = make(chan []byte)
	w.obsvC = make(chan *gossipv1.SignedObservation, 50) // as wired in guardiand
	w.reqC = make(chan *gossipv1.ObservationRequest, w.reqCap)
	w.injectC = make(chan *vaa.VAA)
	w.signedInC = make(chan *gossipv1.SignedVAAWithQuorum, 50)
	gst := common.NewGuardianSetState(nil)
	ev := reporter.EventListener(zap.NewNop())
	sub := ev.Subscribe()
	w.quorumC = sub.Channels.VAAQuorumC
	mp := sub.Channels.MessagePublicationC
	var notifier *discord.DiscordNotifier
	if w.prog.C("notifier", 0) == 1 {
		// the missing-signature notifier is configured, as in production (its HTTP API is simulated)
		n, err := newSimNotifier()
		if err != nil {
			w.res.HarnessErr = "notifier: " + err.Error()
			w.dead.Store(true)
		}
		notifier = n
	}
	w.p = NewProcessor(w.supCtx, w.db, w.lockC, w.setC, w.sendC, w.obsvC, w.reqC, w.injectC, w.signedInC,
		simSigner{w.own, w.prog.C("kmssig", 0) == 1}, gst, ev, notifier, govChain, govEmitter)
	// whatever the runnable sets up when it starts is set up before the handlers are driven directly:
	// Run is entered once with a context that is already cancelled and returns at once
	pre, preCancel := context.WithCancel(w.supCtx)
	preCancel()
	_ = w.p.Run(pre)
	if w.p.cleanup != nil {
		w.p.cleanup.Stop()
	}
	w.stopDr = make(chan struct{})
	stop := w.stopDr
	sendC := w.sendC
	go func() { // plays the p2p sender: drains sendC
		for {
			select {
			case b := <-sendC:
				w.outMu.Lock()
				w.out = append(w.out, b)
				w.outMu.Unlock()
			case <-mp:
			case <-stop:
				return
			}
		}
	}()
	w.parked = nil
	// handler calls get a context created inside the bubble: a select on a context from outside
	// would not be a durable wait, and a stalled handler must be releasable at the end of the run
	w.hctx, w.hcancel = context.WithCancel(w.supCtx)
	if w.loop {
		w.startRun()
	}
}

func (w *world) startRun() {
	w.runCtx, w.cancel = context.WithCancel(w.supCtx)
	w.runDone = make(chan struct{})
	p, ctx, done := w.p, w.runCtx, w.runDone
	go func() {
		defer close(done)
		defer func() {
			if r := recover(); r != nil {
				w.recordPanic(r, debug.Stack())
			}
		}()
		_ = p.Run(ctx)
	}()
}

func (w *world) stopProcessor() {
	if w.hcancel != nil {
		defer w.hcancel()
	}
	if w.stalled {
		if w.cancel != nil {
			w.cancel()
		}
		w.hcancel()
		close(w.stopDr)
		return
	}
	if w.loop && w.cancel != nil {
		w.cancel()
		<-w.runDone
		if w.p.cleanup != nil {
			w.p.cleanup.Stop()
		}
	}
	synctest.Wait()
	close(w.stopDr)
	synctest.Wait()
}

func (w *world) recordPanic(r interface{}, stack []byte) {
	fn := "unknown"
	lines := strings.Split(string(stack), "\n")
	for i := 0; i+1 < len(lines); i++ {
		l := lines[i]
		nxt := lines[i+1]
		if !strings.HasPrefix(nxt, "\t") {
			continue
		}
		if strings.Contains(nxt, "/zz_verif_") || strings.Contains(nxt, "/runtime/") || strings.Contains(nxt, "runtime/debug") ||
			strings.HasPrefix(l, "panic(") || strings.HasPrefix(l, "runtime.") || strings.Contains(nxt, "/testing/") {
			continue
		}
		if strings.Contains(l, "github.com/alephium/wormhole-fork/") {
			fn = l
			if j := strings.LastIndex(fn, "("); j > 0 {
				fn = fn[:j]
			}
			fn = strings.TrimPrefix(fn, "github.com/alephium/wormhole-fork/node/pkg/")
			break
		}
	}
	w.dead.Store(true)
	w.stepMu.Lock()
	idx, cur := w.stepIdx, w.curStep
	w.stepMu.Unlock()
	w.panicked.Store(&simkit.Violation{Prop: "C13", Key: "panic@" + fn, Step: idx, Detail: fmt.Sprintf("panic: %v (step %s)", r, cur)})
}

// ---------------------------------------------------------------------------------------------
// observation of the SUT

// peek reports whether the harness may look at the processor's private state. It does so only
// while the bubble is quiescent, which the race detector cannot know: in the race-detector tier
// with the real Run loop the harness keeps its hands off, so that every report left concerns two
// goroutines of the code under test. (The state oracles run in the ordinary tiers.)
func (w *world) peek() bool { return !(raceBuild && w.loop) }

func (w *world) stateDump() string {
	if !w.peek() {
		return ""
	}
	var keys []string
	for h := range w.p.state.vaaSignatures {
		keys = append(keys, h)
	}
	sort.Strings(keys)
	var sb strings.Builder
	for _, h := range keys {
		s := w.p.state.vaaSignatures[h]
		var sigs []string
		for a, sg := range s.signatures {
			sigs = append(sigs, a.Hex()[2:10]+":"+hex.EncodeToString(crypto.Keccak256(sg)[:4]))
		}
		sort.Strings(sigs)
		gsi := "nil"
		if s.gs != nil {
			gsi = fmt.Sprintf("%d/%d", s.gs.Index, len(s.gs.Keys))
		}
		fmt.Fprintf(&sb, "%.16s our=%v sub=%v set=%v retry=%d gs=%s src=%s first=%d last=%d sigs=%v\n", h, s.ourVAA != nil, s.submitted, s.settled,
			s.retryCount, gsi, s.source, s.firstObserved.Sub(w.start), s.lastRetry.UnixNano(), sigs)
	}
	return sb.String()
}

// hbDump reads the guardian-set state the processor shares with the gossip side. The read goes
// through the state's own lock: if somebody never released it, the read parks and that is reported
// (the processor's next set update would park in the same way).
func (w *world) hbDump() string {
	if w.stalled {
		return "hb=? (stalled)"
	}
	var out string
	done := false
	go func() {
		out = w.hbDumpLocked()
		done = true
	}()
	synctest.Wait()
	if !done {
		w.dead.Store(true)
		w.stalled = true
		w.violate("C14", "cleanup-stalled", "after step %s the guardian-set state is locked for good: the next cleanup pass that settles an entry blocks, nothing is retried or expired any more", w.curStep)
		w.violate("C13", "guardian-set-state-locked-forever", "after step %s the guardian-set state can no longer be read: its lock is held by nobody who will release it, the next guardian-set update blocks the processor for good", w.curStep)
		return "hb=? (locked)"
	}
	return out
}

func (w *world) hbDumpLocked() string {
	all := w.p.gst.GetAll()
	n := 0
	for _, m := range all {
		n += len(m)
	}
	cur := w.p.gst.Get()
	if cur == nil {
		return fmt.Sprintf("hb=%d gst=nil", n)
	}
	return fmt.Sprintf("hb=%d gst=%d/%d", n, cur.Index, len(cur.Keys))
}

type outputs struct {
	obs    []*gossipv1.SignedObservation
	obsRaw [][]byte
	vaas   [][]byte
	other  int
	reqs   []*gossipv1.ObservationRequest
	quorum []*vaa.VAA
}

func (w *world) collect() *outputs {
	synctest.Wait()
	o := &outputs{}
	w.outMu.Lock()
	raw := w.out
	w.out = nil
	w.outMu.Unlock()
	for _, b := range raw {
		var g gossipv1.GossipMessage
		if err := proto.Unmarshal(b, &g); err != nil {
			o.other++
			continue
		}
		switch m := g.Message.(type) {
		case *gossipv1.GossipMessage_SignedObservation:
			o.obs = append(o.obs, m.SignedObservation)
			o.obsRaw = append(o.obsRaw, b)
		case *gossipv1.GossipMessage_SignedVaaWithQuorum:
			o.vaas = append(o.vaas, m.SignedVaaWithQuorum.Vaa)
		default:
			o.other++
		}
	}
	for {
		select {
		case r := <-w.reqC:
			o.reqs = append(o.reqs, r)
			continue
		default:
		}
		break
	}
	for {
		select {
		case v := <-w.quorumC:
			o.quorum = append(o.quorum, v)
			continue
		default:
		}
		break
	}
	w.newParked = 0
	if !w.loop {
		for round := 0; round < 2; round++ {
			for {
				select {
				case ob := <-w.obsvC:
					if ob.MessageId == fillerID {
						continue // queue filler (see "fillq"), not a real observation
					}
					w.parked = append(w.parked, ob)
					w.newParked++
					continue
				default:
				}
				break
			}
			synctest.Wait() // a loopback that was waiting for room in the queue gets in now
		}
	}
	return o
}

type storeChange struct {
	idKey    string
	old, new []byte
}

func (w *world) storeDiff() []storeChange {
	var ch []storeChange
	if w.dbDown {
		return nil
	}
	var ids []string
	for k := range w.universe {
		ids = append(ids, k)
	}
	sort.Strings(ids)
	for _, k := range ids {
		d := w.universe[k]
		b, err := w.db.GetSignedVAABytes(d.vaaID())
		if err != nil {
			b = nil
		}
		old := w.store[k]
		if !bytes.Equal(old, b) {
			ch = append(ch, storeChange{k, old, b})
			w.store[k] = b
		}
	}
	return ch
}

func shortHex(b []byte) string {
	if len(b) > 8 {
		return hex.EncodeToString(b[:8])
	}
	return hex.EncodeToString(b)
}

const fillerID = "verif-queue-filler"

// ---------------------------------------------------------------------------------------------
// step execution

func (w *world) dm(hash string) *digestModel { return w.digests[hash] }

func (w *world) ensureDM(d msgDesc) *digestModel {
	h := hex.EncodeToString(d.digest())
	m := w.digests[h]
	if m == nil {
		m = &digestModel{hash: h, desc: d, delivered: map[string]bool{}, accepted: map[string]bool{}}
		w.digests[h] = m
	}
	return m
}

// guard runs one handler call; in direct mode a panic is caught here (C13).
// guard runs one handler call (direct mode) or one channel hand-off (loop mode) on its own
// goroutine and waits for quiescence: a panic is caught here (C13); a call that has not returned
// when everything is durably blocked has stalled the processor (C17: posting to a full outbound
// queue must fail immediately instead of stalling the caller).
func (w *world) guard(f func()) {
	done := false
	go func() {
		defer func() {
			if r := recover(); r != nil {
				w.recordPanic(r, debug.Stack())
			}
			done = true
		}()
		f()
	}()
	synctest.Wait()
	if !done {
		w.dead.Store(true)
		w.stalled = true
		w.violate("C17", "processor-stalled-in-handler", "the processor did not return from step %s: it is blocked (outbound request queue capacity %d)", w.curStep, w.reqCap)
		w.violate("C13", "processor-stalled-in-handler", "the processor did not return from step %s and processes no further input (inbound queue %d/%d, outbound request queue capacity %d)", w.curStep, len(w.obsvC), cap(w.obsvC), w.reqCap)
		w.violate("C14", "cleanup-stalled", "the processor did not return from step %s: no entry is retried or expired any more", w.curStep)
	}
}

func (w *world) gsOf(s *setDef) *common.GuardianSet {
	gs := &common.GuardianSet{Index: s.index}
	gs.Keys = make([]ethcommon.Address, 0, len(s.keys))
	for _, k := range s.keys {
		gs.Keys = append(gs.Keys, simAddrs[k])
	}
	return gs
}

func (w *world) applicable(m *digestModel) *setDef {
	if m != nil && m.observed && m.snapshot != nil {
		return m.snapshot
	}
	return w.cur
}

func (w *world) runStep(i int, st simkit.Step) {
	w.stepMu.Lock()
	w.stepIdx = i
	w.curStep = st
	w.stepMu.Unlock()
	before := ""
	if st.Op == "obs" {
		before = w.stateDump()
	}
	var obsAcceptable bool
	var obsHash string
	switch st.Op {
	case "set":
		s := parseSet(st.A, st.X)
		w.sets = append(w.sets, s)
		w.cur = s
		gs := w.gsOf(s)
		w.curGS = gs
		if w.loop {
			w.guard(func() { w.setC <- gs })
		} else {
			w.p.gs = gs
			w.guard(func() { w.p.gst.Set(gs) })
		}
	case "msg":
		d := decodeMsg(st.A)
		k := d.publication()
		if w.loop {
			w.guard(func() { w.lockC <- k })
		} else {
			w.guard(func() { w.p.handleMessage(w.hctx, k) })
		}
	case "inj":
		d := decodeMsg(st.A)
		k := d.publication()
		v := &vaa.VAA{Version: 1, GuardianSetIndex: uint32(st.B), Timestamp: k.Timestamp, Nonce: k.Nonce, Sequence: k.Sequence,
			ConsistencyLevel: k.ConsistencyLevel, EmitterChain: k.EmitterChain, TargetChain: k.TargetChain, EmitterAddress: k.EmitterAddress, Payload: k.Payload}
		if w.loop {
			w.guard(func() { w.injectC <- v })
		} else {
			w.guard(func() { w.p.handleInjection(w.hctx, v) })
		}
	case "loop":
		if !w.loop && len(w.parked) > 0 {
			r := int(st.A) % len(w.parked)
			if r < 0 {
				r = 0
			}
			ob := w.parked[r]
			w.parked = append(w.parked[:r:r], w.parked[r+1:]...)
			obsHash = hex.EncodeToString(ob.Hash)
			w.noteDelivery(ob, &obsAcceptable)
			before = w.stateDump()
			w.guard(func() { w.p.handleObservation(w.hctx, ob) })
		} else {
			w.log.Add("noop-loop")
		}
	case "obs":
		w.ensureDM(decodeMsg(st.B))
		ob := w.buildObs(st)
		obsHash = hex.EncodeToString(ob.Hash)
		w.noteDelivery(ob, &obsAcceptable)
		if w.loop {
			w.guard(func() { w.obsvC <- ob })
		} else {
			w.guard(func() { w.p.handleObservation(w.hctx, ob) })
		}
	case "vaa":
		b := w.buildInbound(st)
		m := &gossipv1.SignedVAAWithQuorum{Vaa: b}
		if w.loop {
			w.guard(func() { w.signedInC <- m })
		} else {
			w.guard(func() { w.p.handleInboundSignedVAAWithQuorum(w.hctx, m) })
		}
	case "tick":
		w.doTicks(st)
		return
	case "fillq":
		// the inbound observation queue is full (a gossip burst the processor has not got to yet)
		if !w.loop {
			for len(w.obsvC) < cap(w.obsvC) {
				w.obsvC <- &gossipv1.SignedObservation{MessageId: fillerID}
			}
			w.stats.Fault("inbound-observation-queue-full")
			w.holdQueue = true // stays full until the next step's handler call has been made
			w.log.Add("queue filled")
			w.log.Cut(fmt.Sprintf("%d %s", w.stepIdx, st))
			return
		}
	case "dbdown":
		// storage fault: the badger handle behind the node's store is closed, every store call fails
		// until "dbup" (the *db.Database the processor holds stays the same object)
		if !w.dbDown {
			if err := storeInner(w.db).Close(); err != nil {
				w.res.HarnessErr = "dbdown: " + err.Error()
				w.dead.Store(true)
				return
			}
			w.dbDown = true
			w.stats.Fault("store-unavailable")
		}
	case "dbup":
		if w.dbDown {
			bdb, err := badger.Open(badger.DefaultOptions(w.dir).WithNumCompactors(0).WithLogger(nil))
			if err != nil {
				w.res.HarnessErr = "dbup: " + err.Error()
				w.dead.Store(true)
				return
			}
			setStoreInner(w.db, bdb)
			w.dbDown = false
		}
	case "hb":
		// the gossip side stores a verified heartbeat in the guardian-set state it shares with the
		// processor (A: guardian key, B: peer). More than the per-guardian cap of peers is refused.
		if w.p == nil || w.dead.Load() || raceBuild {
			// (the race-detector build keeps the real mutex, on which a blocked goroutine would hang the
			// bubble instead of being seen as stalled)
			break
		}
		addr, pid := simAddrs[int(st.A)%nKeys], peer.ID(fmt.Sprintf("peer-%d", st.B))
		w.guard(func() {
			_ = w.p.gst.SetHeartbeat(addr, pid, &gossipv1.Heartbeat{NodeName: "n", Counter: st.B, GuardianAddr: addr.Hex()})
		})
		w.stats.Fault("heartbeat-stored")
	case "rerun":
		// the supervisor cancels the processor's runnable and schedules it again: Run is entered a
		// second time on the same Processor (loop mode; the handlers have no such notion)
		if !w.loop || w.stalled || w.dead.Load() || w.cancel == nil {
			break
		}
		w.cancel()
		<-w.runDone
		if w.p.cleanup != nil {
			w.p.cleanup.Stop()
		}
		synctest.Wait()
		w.startRun()
		synctest.Wait()
		w.stats.Fault("run-loop-re-entered")
	case "restart":
		if w.dbDown {
			break
		}
		w.stopProcessor()
		w.db.Close()
		dbn, err := openStore(w.dir)
		if err != nil {
			w.res.HarnessErr = "reopen: " + err.Error()
			w.dead.Store(true)
			return
		}
		w.db = dbn
		w.newProcessor()
		w.cur = nil
		w.curGS = nil
		w.pastSummaries += w.acceptedSummary() + "|restart|"
		w.digests = map[string]*digestModel{}
		w.stats.Fault("node-restart")
	default:
		w.log.Add("unknown-op %s", st.Op)
	}
	w.holdQueue = false
	w.afterStep(st, before, obsHash, obsAcceptable)
}

// buildObs constructs a gossiped observation from a scripted (honest or byzantine) peer.
func (w *world) buildObs(st simkit.Step) *gossipv1.SignedObservation {
	key := int(st.A) % nKeys
	if key < 0 {
		key = 0
	}
	d := decodeMsg(st.B)
	dig := d.digest()
	pub := d.publication()
	ob := &gossipv1.SignedObservation{Addr: simAddrs[key].Bytes(), Hash: dig, Signature: signWith(key, dig), TxHash: pub.TxHash.Bytes(),
		MessageId: fmt.Sprintf("%d", d.m)}
	fault := ""
	switch st.C {
	case 0:
	case 1:
		ob.Signature = crypto.Keccak256([]byte("rnd"), dig, []byte{byte(key)})
		ob.Signature = append(ob.Signature, crypto.Keccak256(ob.Signature)...)
		ob.Signature = append(ob.Signature[:64], byte(st.D&1))
		fault = "obs-random-sig"
	case 2:
		ob.Signature = ob.Signature[:64]
		fault = "obs-short-sig"
	case 3:
		ob.Signature = append(ob.Signature, 0)
		fault = "obs-long-sig"
	case 4:
		other := int(st.D) % nKeys
		if other < 0 {
			other = 0
		}
		ob.Addr = simAddrs[other].Bytes()
		if other != key {
			fault = "obs-wrong-addr-claim"
		}
	case 5:
		od := decodeMsg(st.B ^ (1 << 13))
		ob.Signature = signWith(key, od.digest())
		fault = "obs-sig-over-other-digest"
	case 6:
		ob.Hash = dig[:31]
		fault = "obs-short-hash"
	case 7:
		switch st.D % 3 {
		case 0:
			ob.Addr = nil
		case 1:
			ob.Hash = nil
		default:
			ob.Signature = nil
		}
		fault = "obs-nil-field"
	case 8:
		ob.Signature[64] ^= 1
		fault = "obs-flipped-recovery-id"
	case 9:
		ob.Signature[int(st.D&31)] ^= 0x40
		fault = "obs-bitflip-sig"
	case 10:
		ob.Hash = append([]byte(nil), dig...)
		ob.Hash[int(st.D&31)] ^= 0x01
		fault = "obs-bitflip-hash"
	case 11:
		ob.Addr = append([]byte(nil), ob.Addr...)
		ob.Addr[int(st.D)%20] ^= 0x10
		fault = "obs-bitflip-addr"
	case 12:
		ob.Signature[64] = 27 + ob.Signature[64]
		fault = "obs-v27"
	case 13:
		// the genuine digest preceded by extra bytes: a hash field that is not 32 bytes long is not a
		// digest, whatever its last 32 bytes are
		ob.Hash = append(bytes.Repeat([]byte{byte(0x80 | st.D)}, 1+int(st.D&7)), dig...)
		fault = "obs-long-hash"
	}
	if fault != "" {
		w.stats.Fault(fault)
	}
	return ob
}

// noteDelivery is the oracle's independent decision about an observation that is about to be
// delivered: is it acceptable (C03), and if so it updates the model's delivered/accepted sets (C02).
func (w *world) noteDelivery(ob *gossipv1.SignedObservation, acceptable *bool) {
	*acceptable = false
	if len(ob.Signature) != 65 || len(ob.Hash) != 32 || len(ob.Addr) != 20 {
		return
	}
	addr, err := ref.Recover(ob.Hash, ob.Signature)
	if err != nil || !bytes.Equal(addr, ob.Addr) {
		return
	}
	h := hex.EncodeToString(ob.Hash)
	m := w.dm(h)
	if m != nil {
		m.delivered[hex.EncodeToString(addr)] = true
	}
	app := w.applicable(m)
	if app == nil || !app.has(addr) {
		if app != nil {
			w.stats.Fault("obs-non-member")
		}
		return
	}
	*acceptable = true
	if m == nil {
		// digest not in the model: a valid member signature over something that is not a scripted message
		return
	}
	m.accepted[hex.EncodeToString(addr)] = true
	if m.firstSeen.IsZero() {
		m.firstSeen = time.Now()
	}
	if !m.observed {
		w.nEarlyObs++
	}
}

func (w *world) pickSet(b int64) *setDef {
	if len(w.sets) == 0 {
		return nil
	}
	if b < 0 || int(b) >= len(w.sets) {
		return w.sets[len(w.sets)-1]
	}
	return w.sets[b]
}

// buildInbound constructs a SignedVAAWithQuorum as a peer / backfill source would send it.
func (w *world) buildInbound(st simkit.Step) []byte {
	d := decodeMsg(st.A)
	s := w.pickSet(st.B)
	if s == nil {
		s = &setDef{index: 0, keys: []int{0}}
	}
	body := d.refBody()
	dig := ref.Digest(ref.EncodeBody(body))
	n := len(s.keys)
	q := ref.Quorum(n)
	cnt := q
	cls := st.D & 3
	rot := int(st.D >> 2)
	switch cls {
	case 1:
		cnt = q - 1
		w.stats.Fault("vaa-under-quorum")
	case 2:
		cnt = n
	case 3:
		cnt = q + 1
	}
	if cnt > n {
		cnt = n
	}
	if cnt < 0 {
		cnt = 0
	}
	var idx []int
	for i := 0; i < cnt && n > 0; i++ {
		idx = append(idx, (rot+i)%n)
	}
	sort.Ints(idx)
	v := &ref.VAA{Version: 1, SetIndex: s.index, Body: *body}
	for _, i := range idx {
		var sg ref.Sig
		sg.Index = uint8(i)
		copy(sg.Sig[:], signWith(s.keys[i], dig))
		v.Sigs = append(v.Sigs, sg)
	}
	if s != w.cur && w.cur != nil {
		w.stats.Fault("vaa-signed-by-other-set")
	}
	switch st.C {
	case 0:
	case 1:
		if len(v.Sigs) >= 2 {
			v.Sigs[0], v.Sigs[1] = v.Sigs[1], v.Sigs[0]
			w.stats.Fault("vaa-unordered")
		}
	case 2:
		if len(v.Sigs) >= 1 {
			// quorum count reached only through a duplicated signer
			dup := v.Sigs[len(v.Sigs)-1]
			v.Sigs = append(v.Sigs[:len(v.Sigs)-1:len(v.Sigs)-1], v.Sigs[0])
			_ = dup
			sort.SliceStable(v.Sigs, func(a, b int) bool { return v.Sigs[a].Index < v.Sigs[b].Index })
			w.stats.Fault("vaa-dup-index")
		}
	case 3:
		if len(v.Sigs) >= 1 {
			v.Sigs[len(v.Sigs)-1].Index = uint8(n + int(st.D>>4)%3)
			w.stats.Fault("vaa-index-out-of-range")
		}
	case 4:
		if len(v.Sigs) >= 1 {
			out := -1
			for k := 0; k < nKeys; k++ {
				if !s.has(simAddrs[k].Bytes()) {
					out = k
					break
				}
			}
			if out >= 0 {
				copy(v.Sigs[0].Sig[:], signWith(out, dig))
				w.stats.Fault("vaa-non-member-sig")
			}
		}
	case 5:
		od := decodeMsg(st.A ^ (1 << 13))
		odig := od.digest()
		for i := range v.Sigs {
			copy(v.Sigs[i].Sig[:], signWith(s.keys[v.Sigs[i].Index], odig))
		}
		w.stats.Fault("vaa-sigs-over-other-body")
	case 6:
		w.stats.Fault("vaa-garbage")
		return crypto.Keccak256([]byte("garbage"), []byte{byte(st.D)})[:int(st.D)%33]
	case 7:
		v.Sigs = nil
		w.stats.Fault("vaa-empty-sigs")
	case 8:
		b := ref.Encode(v)
		cut := int(st.D>>4) % (len(b) + 1)
		w.stats.Fault("vaa-truncated")
		return b[:cut]
	case 9:
		v.SetIndex = s.index + 1 + uint32(st.D>>4)%3
		w.stats.Fault("vaa-names-other-set")
	case 10:
		v.Version = 2
		w.stats.Fault("vaa-bad-version")
	case 11:
		if len(v.Sigs) >= 1 {
			v.Sigs[len(v.Sigs)/2].Sig[int(st.D>>4)%64] ^= 0x04
			w.stats.Fault("vaa-bitflip-sig")
		}
	case 12:
		// body differs from what was signed (flip one payload/nonce bit after signing)
		v.Body.Nonce ^= 1
		w.stats.Fault("vaa-body-altered")
	}
	return ref.Encode(v)
}

// afterStep evaluates the oracles of C01, C02, C03 after one non-tick step.
func (w *world) afterStep(st simkit.Step, before, obsHash string, obsAcceptable bool) {
	w.deliveryStep = st.Op == "obs" || (st.Op == "loop" && obsHash != "")
	o := w.collect()
	if w.panicked.Load() != nil {
		return
	}
	changes := w.storeDiff()
	d := decodeMsg(st.A)
	if st.Op == "obs" {
		d = decodeMsg(st.B)
	}

	// --- model update for own observations
	switch st.Op {
	case "msg", "inj":
		if st.Op == "msg" && w.cur == nil {
			// dropped: no set yet. Nothing may come out.
			if len(o.obs)+len(o.vaas)+len(changes) > 0 {
				w.violate("C02", "output-before-guardian-set", "message processed without a guardian set: %d obs %d vaas %d store changes", len(o.obs), len(o.vaas), len(changes))
			}
			break
		}
		if st.Op == "msg" && d.isGov() {
			if len(o.obs)+len(o.vaas)+len(changes)+len(o.reqs) > 0 {
				w.violate("C02", "governance-emitter-observation-signed", "chain observation naming the governance emitter produced %d obs %d vaas %d store changes", len(o.obs), len(o.vaas), len(changes))
			}
			if w.peek() && w.p.state.vaaSignatures[hex.EncodeToString(d.digest())] != nil && w.dm(hex.EncodeToString(d.digest())) == nil {
				w.violate("C02", "governance-emitter-observation-state", "chain observation naming the governance emitter created aggregation state")
			}
			w.stats.Probe("gov-emitter-observation-dropped")
			break
		}
		m := w.ensureDM(d)
		storedSkip := false
		if st.Op == "msg" {
			if len(o.obs) == 0 {
				// the only legitimate reason: a quorum VAA with this identifier is already stored AND this
				// observation's block time lies more than the settlement time (30 s) after that VAA's
				// (i.e. it is not the same message seen again, for which the node must still sign)
				legit := false
				if sb := w.store[d.idKey()]; sb != nil {
					if sv, err := ref.Decode(sb); err == nil {
						legit = d.timestamp().Sub(time.Unix(int64(sv.Body.TimestampSec), 0)) > 30*time.Second
					}
				}
				if legit {
					storedSkip = true
					w.stats.Probe("late-observation-skipped")
				} else {
					w.violate("C02", "own-observation-not-broadcast", "chain observation %s produced no signed observation", d.idKey())
				}
			}
		}
		if !storedSkip {
			wasObserved := m.observed
			m.observed = true
			m.injected = st.Op == "inj"
			m.snapshot = w.cur
			m.body = ref.EncodeBody(d.refBody())
			if m.firstSeen.IsZero() {
				m.firstSeen = time.Now()
			}
			if wasObserved {
				w.stats.Probe("re-observation")
			}
		}
		for i, ob := range o.obs {
			if !bytes.Equal(ob.Hash, d.digest()) {
				w.violate("C02", "own-observation-wrong-digest", "own observation for %s signs %x, expected %x", d.idKey(), ob.Hash, d.digest())
			}
			if !bytes.Equal(ob.Addr, simAddrs[w.own].Bytes()) {
				w.violate("C02", "own-observation-wrong-addr", "own observation claims %x", ob.Addr)
			}
			if a, err := ref.Recover(ob.Hash, ob.Signature); err != nil || !bytes.Equal(a, simAddrs[w.own].Bytes()) {
				w.violate("C02", "own-observation-bad-signature", "own observation signature does not recover to the node key")
			}
			kind := st.Op
			if m.firstObsMsg != nil && m.obsKind == kind && !bytes.Equal(m.firstObsMsg, o.obsRaw[i]) {
				w.violate("C02", "re-observation-not-idempotent", "re-observation of %s broadcast different bytes", d.idKey())
			}
			m.firstObsMsg = o.obsRaw[i]
			m.obsKind = kind
		}
		if len(o.obs) > 1 {
			w.violate("C02", "own-observation-duplicated", "%d signed observations for one chain observation", len(o.obs))
		}
		if !w.loop && len(o.obs) > 0 && w.newParked == 0 {
			w.violate("C02", "own-signature-loopback-lost", "the node signed %s but its own observation never came back for aggregation (inbound queue full at that moment: %v)", d.idKey(), w.stats.Faults["inbound-observation-queue-full"] > 0)
		}
		if w.loop && len(o.obs) > 0 {
			// with the real Run loop the own-signature loopback is consumed within the same step
			obsHash = hex.EncodeToString(o.obs[0].Hash)
			w.noteDelivery(o.obs[0], &obsAcceptable)
			w.deliveryStep = true
		}
	}

	// --- C03: unacceptable gossip must not change anything
	if st.Op == "obs" {
		after := w.stateDump()
		if !obsAcceptable {
			w.nRejected++
			if before != after {
				w.violate("C03", "unacceptable-observation-changed-aggregation", "step %s variant changed aggregation state:\n-%s\n+%s", st, before, after)
			}
			if len(o.obs)+len(o.vaas)+o.other+len(o.reqs)+len(o.quorum) > 0 {
				w.violate("C03", "unacceptable-observation-caused-output", "step %s caused %d obs, %d vaas, %d reqs", st, len(o.obs), len(o.vaas), len(o.reqs))
			}
			if len(changes) > 0 {
				w.violate("C03", "unacceptable-observation-changed-store", "step %s changed the store entry %s", st, changes[0].idKey)
			}
		} else {
			w.nAcceptedObs++
		}
	}
	if st.Op == "loop" && obsHash != "" && !obsAcceptable {
		// own loopback while the node is not a member of the applicable set: same rule
		after := w.stateDump()
		if before != after || len(o.vaas) > 0 || len(changes) > 0 {
			w.violate("C03", "non-member-loopback-changed-state", "own loopback (node not in applicable set) changed state")
		}
		w.stats.Probe("loopback-while-not-member")
	}

	// --- publications (quorum VAAs on the wire)
	for _, vb := range o.vaas {
		w.checkPublication(st, vb)
	}
	// --- store changes
	for _, c := range changes {
		w.checkStoreChange(st, c)
	}
	// --- quorum reports
	for _, qv := range o.quorum {
		b, _ := qv.Marshal()
		w.checkReported(st, b)
	}

	// --- C02 progress
	if w.deliveryStep && obsAcceptable {
		if m := w.dm(obsHash); m != nil && m.observed && m.snapshot != nil {
			cnt := 0
			for _, k := range m.snapshot.keys {
				if m.accepted[hex.EncodeToString(simAddrs[k].Bytes())] {
					cnt++
				}
			}
			q := ref.Quorum(len(m.snapshot.keys))
			if cnt >= q && m.published == 0 {
				w.violate("C02", "quorum-reached-not-published", "digest %s: %d accepted member signatures >= quorum %d of set %s but nothing was published (step %s)",
					obsHash[:16], cnt, q, m.snapshot, st)
			}
			if cnt == q-1 {
				w.stats.Probe("one-below-quorum")
			}
		}
	}

	// log
	for _, ob := range o.obs {
		w.log.Add("out obs %s by %s", shortHex(ob.Hash), shortHex(ob.Addr))
	}
	for _, vb := range o.vaas {
		w.log.Add("out vaa %s", shortHex(crypto.Keccak256(vb)))
	}
	for _, c := range changes {
		w.log.Add("store %s %s->%s", c.idKey, shortHex(crypto.Keccak256(c.old)), shortHex(crypto.Keccak256(c.new)))
	}
	for _, r := range o.reqs {
		w.log.Add("out req %d %s", r.ChainId, shortHex(r.TxHash))
	}
	w.log.Add("state %s %s", shortHex(crypto.Keccak256([]byte(w.stateDump()))), w.hbDump())
	w.log.Cut(fmt.Sprintf("%d %s", w.stepIdx, st))
}

func (w *world) setForPublication(st simkit.Step, v *ref.VAA) (*setDef, *digestModel, string) {
	h := hex.EncodeToString(ref.Digest(v.BodyRaw))
	m := w.dm(h)
	if st.Op == "vaa" {
		return w.cur, m, "current"
	}
	if m != nil && m.observed {
		if m.snapshot == nil {
			return w.cur, m, "current(injection-without-set)"
		}
		return m.snapshot, m, "snapshot"
	}
	return w.cur, m, "current(unobserved)"
}

// checkPublication: C01 + C02 safety for a SignedVAAWithQuorum broadcast.
func (w *world) checkPublication(st simkit.Step, vb []byte) {
	w.nPublished++
	v, err := ref.Decode(vb)
	if err != nil {
		w.violate("C01", "broadcast-undecodable-vaa", "broadcast VAA does not decode: %v", err)
		return
	}
	set, m, which := w.setForPublication(st, v)
	if set == nil {
		w.violate("C01", "broadcast-without-guardian-set", "VAA broadcast while the node has no guardian set")
		return
	}
	if err := ref.VerifyDecoded(v, set.addrs()); err != nil {
		w.violate("C01", "broadcast-fails-verification", "broadcast VAA fails verification against %s set %s: %v (step %s)", which, set, err, st)
	}
	if m != nil && m.observed && !m.injected && which == "snapshot" && v.SetIndex != set.index {
		w.violate("C01", "broadcast-names-wrong-set", "own VAA names set %d but was observed under set %d", v.SetIndex, set.index)
	}
	// C02 safety
	h := hex.EncodeToString(ref.Digest(v.BodyRaw))
	if m == nil || !m.observed {
		w.violate("C02", "published-unobserved-message", "VAA for digest %s published but the node never observed that message", h[:16])
		return
	}
	if !bytes.Equal(v.BodyRaw, m.body) {
		w.violate("C02", "published-body-differs", "published body differs from own observation")
	}
	if m.snapshot != nil {
		cnt := 0
		for _, k := range m.snapshot.keys {
			if m.delivered[hex.EncodeToString(simAddrs[k].Bytes())] {
				cnt++
			}
		}
		if q := ref.Quorum(len(m.snapshot.keys)); cnt < q {
			w.violate("C02", "published-below-quorum", "published with %d distinct member signatures delivered, quorum is %d of %s", cnt, q, m.snapshot)
		}
	}
	m.published++
	w.everPublished[h]++
	m.publishedAt = time.Now()
	if m.published > 1 {
		w.violate("C02", "published-twice", "digest %s published %d times in one aggregation lifetime", h[:16], m.published)
	}
	if !w.deliveryStep {
		w.violate("C02", "publication-from-non-delivery-step", "step %s published a VAA", st)
	}
	// every publication must also be in the store
	if id := m.desc.idKey(); !w.dbDown && !bytes.Equal(w.store[id], vb) {
		// storeDiff ran before; the store must hold exactly these bytes now
		w.violate("C02", "published-not-stored", "published VAA %s is not what the store holds", id)
	}
}

// checkStoreChange: C01 for store writes.
func (w *world) checkStoreChange(st simkit.Step, c storeChange) {
	if c.new == nil {
		w.violate("C01", "stored-vaa-removed", "store entry %s disappeared at step %s", c.idKey, st)
		return
	}
	v, err := ref.Decode(c.new)
	if err != nil {
		w.violate("C01", "stored-undecodable-vaa", "stored VAA %s does not decode: %v", c.idKey, err)
		return
	}
	set, m, which := w.setForPublication(st, v)
	if st.Op == "vaa" {
		w.nStoredInbound++
		if c.old != nil {
			w.violate("C01", "stored-vaa-replaced-by-peer-copy", "store entry %s was replaced by a peer's copy", c.idKey)
		}
	}
	if set == nil {
		w.violate("C01", "stored-without-guardian-set", "VAA stored while the node has no guardian set")
		return
	}
	if err := ref.VerifyDecoded(v, set.addrs()); err != nil {
		w.violate("C01", "stored-fails-verification", "stored VAA %s fails verification against %s set %s: %v (step %s)", c.idKey, which, set, err, st)
	}
	if st.Op != "vaa" {
		if m == nil || !m.observed {
			w.violate("C02", "stored-unobserved-message", "VAA %s stored by an aggregation step but the node never observed that message", c.idKey)
		}
	}
	// identifier consistency
	want := decodeMsg(w.universe[c.idKey].m)
	ec, ea := want.emitter()
	if v.Body.EmitterChain != uint16(ec) || v.Body.Emitter != ea || v.Body.TargetChain != uint16(want.target()) || v.Body.Sequence != want.sequence() {
		w.violate("C01", "stored-under-wrong-id", "entry %s holds a VAA with another identifier", c.idKey)
	}
	for _, dm := range w.digests {
		if dm.desc.idKey() == c.idKey {
			dm.hadStoreAt = true
		}
	}
}

func (w *world) checkReported(st simkit.Step, vb []byte) {
	v, err := ref.Decode(vb)
	if err != nil {
		w.violate("C01", "reported-undecodable-vaa", "VAAQuorum report does not decode: %v", err)
		return
	}
	set, _, which := w.setForPublication(st, v)
	if set == nil {
		w.violate("C01", "reported-without-guardian-set", "VAAQuorum reported without a guardian set")
		return
	}
	if err := ref.VerifyDecoded(v, set.addrs()); err != nil {
		w.violate("C01", "reported-fails-verification", "VAAQuorum report fails verification against %s set %s: %v", which, set, err)
	}
}

// ---------------------------------------------------------------------------------------------
// ticks and the C14 oracle

const (
	minute = time.Minute
	hour   = time.Hour
)

func (w *world) doTicks(st simkit.Step) {
	w.deliveryStep = false
	w.holdQueue = false
	n := int(st.B)
	if n <= 0 {
		n = 1
	}
	dt := time.Duration(st.A)
	if dt <= 0 {
		dt = time.Nanosecond
	}
	if w.loop && dt > 30*time.Second {
		dt = 30 * time.Second // at most one pass of the real 30 s ticker per sub-step
	}
	if dt > w.maxDt {
		w.maxDt = dt
	}
	for k := 0; k < n && !w.dead.Load(); k++ {
		time.Sleep(dt)
		if !w.loop {
			w.guard(func() { w.p.handleCleanup(w.hctx) })
		} else {
			// the Run loop must be back in its select: a set update hand-off completes at once
			if cur := w.curGS; cur != nil {
				w.guard(func() { w.setC <- cur })
			}
		}
		if w.dead.Load() {
			return
		}
		o := w.collect()
		if w.panicked.Load() != nil {
			return
		}
		changes := w.storeDiff()
		for _, vb := range o.vaas {
			w.checkPublication(st, vb)
		}
		for _, c := range changes {
			w.checkStoreChange(st, c)
		}
		if w.peek() {
			w.checkCleanup(st, o)
		}
		if n <= 4 || k < 2 || k == n-1 {
			for _, ob := range o.obs {
				w.log.Add("tick out obs %s", shortHex(ob.Hash))
			}
			if len(o.reqs) < len(o.obs) {
				// the bounded request queue dropped some: which ones depends on Go's map order (rule D3/D4)
				w.log.Add("tick out reqs %d of %d (queue-limited)", len(o.reqs), len(o.obs))
			} else {
				for _, r := range o.reqs {
					w.log.Add("tick out req %d %s", r.ChainId, shortHex(r.TxHash))
				}
			}
			w.log.Add("state %s", shortHex(crypto.Keccak256([]byte(w.stateDump()))))
			w.log.Cut(fmt.Sprintf("%d %s #%d t=%v", w.stepIdx, st, k, time.Since(w.start)))
		}
	}
}

// checkCleanup is the C14 model: bounds on retry cadence, retry content and entry lifetimes.
// It is evaluated after every cleanup pass. Constants come from the property statement
// (five minutes, an hour) with explicit tolerances, not from the package under test.
func (w *world) checkCleanup(st simkit.Step, o *outputs) {
	now := time.Now()
	retried := map[string]int{}
	for i, ob := range o.obs {
		h := hex.EncodeToString(ob.Hash)
		retried[h]++
		m := w.dm(h)
		if m == nil || !m.observed {
			w.violate("C14", "retry-of-unobserved-digest", "cleanup re-broadcast an observation for %s which the node never observed", shortHex(ob.Hash))
			continue
		}
		if m.firstObsMsg != nil && !bytes.Equal(m.firstObsMsg, o.obsRaw[i]) {
			w.violate("C14", "retry-not-byte-identical", "re-broadcast observation for %s differs from the original", h[:16])
		}
	}
	var hashes []string
	for h := range w.digests {
		hashes = append(hashes, h)
	}
	sort.Strings(hashes)
	nRetriesThisTick := len(o.obs)
	for _, h := range hashes {
		m := w.digests[h]
		if m.firstSeen.IsZero() {
			continue // the model does not expect an entry for this digest
		}
		_, exists := w.p.state.vaaSignatures[h]
		age := now.Sub(m.firstSeen)
		stored := w.store[m.desc.idKey()] != nil
		r := retried[h]
		cat := "unobserved"
		switch {
		case m.published > 0:
			cat = "published"
		case m.observed && stored:
			cat = "late"
		case m.observed:
			cat = "pending"
		}
		if cat != m.cat {
			m.cat = cat
			m.dueMissed = 0
		}
		if r > 1 {
			w.violate("C14", "retried-twice-in-one-pass", "digest %s re-broadcast %d times by one cleanup pass", h[:16], r)
		}
		if r > 0 {
			w.nRetries++
			if m.published > 0 {
				w.violate("C14", "retry-after-publication", "digest %s re-broadcast after it was published", h[:16])
			}
			if age < 5*minute-time.Second {
				w.violate("C14", "retry-too-early", "digest %s retried at age %v", h[:16], age)
			}
			slack := time.Second
			if w.loop {
				slack = 31 * time.Second // retries are seen at the end of a sub-step, up to one ticker period late
			}
			if !m.lastRetry.IsZero() && now.Sub(m.lastRetry) < 5*minute-slack {
				w.violate("C14", "retry-interval-too-short", "digest %s retried %v after the previous retry", h[:16], now.Sub(m.lastRetry))
			}
			// exactly one re-observation request for the originating transaction on the emitter chain
			pub := m.desc.publication()
			wantTx := pub.TxHash.Bytes()
			if m.injected {
				wantTx = nil
			}
			found := 0
			for _, rq := range o.reqs {
				if rq.ChainId == uint32(pub.EmitterChain) && bytes.Equal(rq.TxHash, wantTx) {
					found++
				}
			}
			if found == 0 {
				if len(o.reqs) >= w.reqCap && nRetriesThisTick > w.reqCap {
					w.stats.Probe("request-dropped-queue-full")
				} else {
					w.violate("C14", "retry-without-reobservation-request", "digest %s re-broadcast without a re-observation request for chain %d tx %x (got %d requests)",
						h[:16], pub.EmitterChain, pub.TxHash.Bytes()[:4], len(o.reqs))
				}
			}
			m.lastRetry = now
			m.retries++
		}
		if !exists {
			// the entry is gone: was that allowed?
			switch cat {
			case "pending":
				if age < 120*hour {
					w.violate("C14", "pending-entry-dropped-before-budget", "observed, unpublished digest %s (no stored VAA) was discarded at age %v after %d retries", h[:16], age, m.retries)
				}
			case "late":
				if age < 29*time.Second {
					w.violate("C14", "late-entry-dropped-too-early", "digest %s dropped at age %v", h[:16], age)
				}
				w.stats.Probe("late-entry-expired")
			case "published":
				if age < 55*minute {
					w.violate("C14", "published-entry-dropped-too-early", "published digest %s removed at age %v", h[:16], age)
				}
				w.stats.Probe("published-entry-expired")
			case "unobserved":
				if age < 5*minute-time.Second {
					w.violate("C14", "unobserved-entry-dropped-too-early", "unobserved digest %s removed at age %v", h[:16], age)
				}
				w.stats.Probe("unobserved-entry-expired")
			}
			w.nExpired++
			w.forget(h)
			continue
		}
		// the entry exists: is something overdue?
		overdue := false
		switch cat {
		case "pending":
			since := age
			if !m.lastRetry.IsZero() {
				since = now.Sub(m.lastRetry)
			}
			overdue = r == 0 && age >= 5*minute+time.Second && since >= 5*minute+time.Second
		case "published":
			overdue = age >= hour+time.Second
		case "unobserved":
			overdue = age >= 5*minute+time.Second
		}
		if overdue && m.overdueSince.IsZero() {
			m.overdueSince = now
		} else if !overdue {
			m.overdueSince = time.Time{}
		}
		if overdue && w.loop {
			// with the real ticker the number of passes per step is not observable: two full ticker
			// periods (plus a second) without the due action is the bound
			if now.Sub(m.overdueSince) >= 61*time.Second {
				w.violate("C14", cat+"-entry-overdue", "%s digest %s: retry/expiry overdue for %v while the cleanup ticker should have fired twice (age %v)", cat, h[:16], now.Sub(m.overdueSince), age)
			}
		} else if overdue {
			m.dueMissed++
			if m.dueMissed >= 2 {
				w.violate("C14", cat+"-entry-overdue", "%s digest %s: retry/expiry overdue for two consecutive cleanup passes (age %v, last retry %v ago)", cat, h[:16], age, now.Sub(m.lastRetry))
			}
		} else {
			m.dueMissed = 0
		}
		if (age > 61*24*hour && w.maxDt <= 5*minute+time.Second) || m.retries > 20000 {
			w.violate("C14", "entry-never-expires", "%s digest %s still present after %v and %d retries", cat, h[:16], age, m.retries)
		}
	}
	if len(o.reqs) > nRetriesThisTick {
		w.violate("C14", "request-without-retry", "%d re-observation requests for %d retries", len(o.reqs), nRetriesThisTick)
	}
}

// forget ends an aggregation lifetime in the model.
func (w *world) forget(h string) {
	m := w.digests[h]
	if m == nil {
		return
	}
	w.digests[h] = &digestModel{hash: h, desc: m.desc, delivered: map[string]bool{}, accepted: map[string]bool{}, hadStoreAt: m.hadStoreAt}
}

// storm (race-detector tier, loop mode only): gossip keeps arriving from several goroutines while
// the real 30 s cleanup ticker fires a few times. Everything the processor does must stay on its
// own goroutine; the race detector reports any aggregation state touched from elsewhere.
func (w *world) storm() {
	var wg sync.WaitGroup
	members := w.cur.keys
	for f := 0; f < 3; f++ {
		wg.Add(1)
		go func(f int) {
			defer wg.Done()
			for k := 0; k < 40; k++ {
				d := decodeMsg(encodeMsg((f*5+k)%14, 0, 0, 0, k%4, (k/4)%2))
				dig := d.digest()
				key := members[(f+k)%len(members)]
				select {
				case w.obsvC <- &gossipv1.SignedObservation{Addr: simAddrs[key].Bytes(), Hash: dig, Signature: signWith(key, dig), TxHash: dig, MessageId: "storm"}:
				case <-w.runDone: // the Run loop is gone (it panicked): nobody will ever read the queue
					return
				}
				time.Sleep(time.Duration(500+100*f) * time.Millisecond)
			}
		}(f)
	}
	// the node's own watchers report some of the messages as well (entries with an own observation
	// are the ones the cleanup pass looks guardians' heartbeats up for when a signature is missing)
	wg.Add(1)
	go func() {
		defer wg.Done()
		for k := 0; k < 8; k++ {
			d := decodeMsg(encodeMsg(k%14, 0, 0, 0, k%4, (k/4)%2))
			select {
			case w.lockC <- d.publication():
			case <-w.runDone:
				return
			}
			time.Sleep(900 * time.Millisecond)
		}
	}()
	// peers' finished VAAs and guardian-set updates arrive meanwhile on their own channels
	inbound := make([][]byte, 0, 12)
	for k := 0; k < 12; k++ {
		inbound = append(inbound, w.buildInbound(simkit.Step{Op: "vaa", A: encodeMsg(k%14, 0, 0, 0, k%4, 1), B: -1, D: 0}))
	}
	// the gossip side keeps storing heartbeats in the state it shares with the processor (whose
	// cleanup pass reads them when the notifier is configured)
	wg.Add(1)
	go func() {
		defer wg.Done()
		// ... and goes on doing so after the other feeders have finished, across the cleanup passes
		// that settle the storm's messages (30 s after their first observation)
		for k := 0; k < 220; k++ {
			key := members[k%len(members)]
			_ = w.p.gst.SetHeartbeat(simAddrs[key], peer.ID(fmt.Sprintf("storm-peer-%d", k%5)), &gossipv1.Heartbeat{NodeName: "storm", Counter: int64(k)})
			time.Sleep(450 * time.Millisecond)
		}
	}()
	wg.Add(2)
	go func() {
		defer wg.Done()
		for _, b := range inbound {
			select {
			case w.signedInC <- &gossipv1.SignedVAAWithQuorum{Vaa: b}:
			case <-w.runDone:
				return
			}
			time.Sleep(700 * time.Millisecond)
		}
	}()
	go func() {
		defer wg.Done()
		for k := 0; k < 8 && w.curGS != nil; k++ {
			select {
			case w.setC <- w.curGS:
			case <-w.runDone:
				return
			}
			time.Sleep(1300 * time.Millisecond)
		}
	}()
	wg.Wait()
	time.Sleep(70 * time.Second)
	synctest.Wait()
	w.outMu.Lock()
	w.out = nil
	w.outMu.Unlock()
	w.stats.Probe("concurrent-gossip-storm")
}

// openStore opens the node's badger store like db.Open does, except that badger's four
// compaction workers are switched off: each of them polls on a 50 ms ticker, which turns every
// simulated hour into 288 000 timer events (a 60-day C14 horizon would take a quarter of an
// hour). db.Open hard-codes its options, so the *db.Database is assembled around a badger handle
// opened here. Compaction never triggers with VAA-sized workloads, so the behaviour is the same.
func storeInner(d *db.Database) *badger.DB {
	f := reflect.ValueOf(d).Elem().FieldByName("db")
	return reflect.NewAt(f.Type(), unsafe.Pointer(f.UnsafeAddr())).Elem().Interface().(*badger.DB)
}

func setStoreInner(d *db.Database, b *badger.DB) {
	f := reflect.ValueOf(d).Elem().FieldByName("db")
	reflect.NewAt(f.Type(), unsafe.Pointer(f.UnsafeAddr())).Elem().Set(reflect.ValueOf(b))
}

func openStore(dir string) (*db.Database, error) {
	bdb, err := badger.Open(badger.DefaultOptions(dir).WithNumCompactors(0).WithLogger(nil))
	if err != nil {
		return nil, err
	}
	d := &db.Database{}
	f := reflect.ValueOf(d).Elem().FieldByName("db")
	if !f.IsValid() {
		return nil, fmt.Errorf("db.Database has no field db")
	}
	reflect.NewAt(f.Type(), unsafe.Pointer(f.UnsafeAddr())).Elem().Set(reflect.ValueOf(bdb))
	return d, nil
}

// ---------------------------------------------------------------------------------------------
// Exec

type procHarness struct{ t *testing.T }

func (procHarness) Name() string { return "procsim" }

func (h procHarness) execOnce(p *simkit.Program) (*simkit.Result, *world) {
	res := &simkit.Result{Seed: p.Seed, Prop: p.Prop, Steps: len(p.Steps)}
	w := &world{t: h.t, prog: p, res: res, log: &simkit.Log{}, stats: simkit.NewStats(), prop: p.Prop,
		digests: map[string]*digestModel{}, universe: map[string]msgDesc{}, store: map[string][]byte{}, everPublished: map[string]int{}}
	w.own = int(p.C("own", 0)) % nKeys
	w.loop = p.C("loop", 0) == 1
	w.reqCap = int(p.C("reqcap", 50))
	if w.reqCap < 0 {
		w.reqCap = 0
	}
	for _, st := range p.Steps {
		switch st.Op {
		case "msg", "vaa", "inj":
			d := decodeMsg(st.A)
			w.universe[d.idKey()] = d
			d2 := decodeMsg(st.A ^ (1 << 13))
			w.universe[d2.idKey()] = d2
		case "obs":
			d := decodeMsg(st.B)
			w.universe[d.idKey()] = d
		}
	}
	scratch := os.Getenv("VERIF_SCRATCH")
	if scratch == "" {
		scratch = os.TempDir()
	}
	w.dir = filepath.Join(scratch, fmt.Sprintf("procsim-%d-%d", os.Getpid(), p.Seed))
	os.RemoveAll(w.dir)
	defer os.RemoveAll(w.dir)
	w.supCtx = supervisorContext()
	fd := &fakeDiscord{}
	if p.C("notifier", 0) == 1 {
		oldT := http.DefaultTransport
		http.DefaultTransport = fd
		defer func() { http.DefaultTransport = oldT }()
	}

	body := func(t *testing.T) {
		w.start = time.Now()
		d, err := openStore(w.dir)
		if err != nil {
			res.HarnessErr = "db.Open: " + err.Error()
			return
		}
		w.db = d
		w.newProcessor()
		for i, st := range p.Steps {
			if w.dead.Load() {
				break
			}
			w.runStep(i, st)
			if w.panicked.Load() != nil {
				break
			}
		}
		if w.panicked.Load() != nil {
			res.Violations = append(res.Violations, *w.panicked.Load())
			w.log.Add("PANIC %s", w.panicked.Load().Key)
			w.log.Cut("panic")
		}
		if raceBuild && w.loop && !w.dead.Load() && w.cur != nil && len(w.cur.keys) > 0 {
			w.storm()
			if w.panicked.Load() != nil {
				res.Violations = append(res.Violations, *w.panicked.Load())
				w.log.Add("PANIC %s", w.panicked.Load().Key)
				w.log.Cut("panic during the storm")
			}
		}
		res.SimNs = int64(time.Since(w.start))
		w.stopProcessor()
		if !w.dbDown {
			w.db.Close()
		}
	}
	func() {
		defer func() {
			if r := recover(); r != nil {
				msg := fmt.Sprint(r)
				if strings.Contains(msg, "deadlock") && (w.panicked.Load() != nil || len(res.Violations) > 0) {
					return
				}
				res.HarnessErr = "bubble: " + msg
			}
		}()
		synctest.Test(h.t, body)
	}()

	w.stats.ProbeN("missing-signature-notifications", fd.posts.Load())
	w.stats.ProbeN("published", int64(w.nPublished))
	w.stats.ProbeN("obs-rejected", int64(w.nRejected))
	w.stats.ProbeN("obs-accepted", int64(w.nAcceptedObs))
	w.stats.ProbeN("inbound-stored", int64(w.nStoredInbound))
	w.stats.ProbeN("retries", int64(w.nRetries))
	w.stats.ProbeN("expired", int64(w.nExpired))
	w.stats.ProbeN("sig-before-own-observation", int64(w.nEarlyObs))
	res.Faults = w.stats.Faults
	res.Probes = w.stats.Probes
	res.Log = w.log.Lines()
	res.LogHash = w.log.Hash()
	switch p.Prop {
	case "C01":
		res.NonTrivial = (w.nPublished > 0 || w.nStoredInbound > 0) && (w.nRejected > 0 || len(w.stats.Faults) > 0)
	case "C02":
		res.NonTrivial = w.nPublished > 0
	case "C03":
		res.NonTrivial = w.nRejected > 0 && w.nAcceptedObs > 0
	case "C13":
		res.NonTrivial = len(p.Steps) >= 3
	case "C14":
		res.NonTrivial = w.nRetries > 0 || w.nExpired > 0
	case "C17":
		res.NonTrivial = w.nRetries > w.reqCap
	}
	// only violations of the selected property are fatal for this check; others are kept as probes
	var keep []simkit.Violation
	for _, v := range res.Violations {
		if v.Prop == p.Prop {
			keep = append(keep, v)
		} else {
			res.Probes["other-property-violation:"+v.Prop+":"+v.Key]++
		}
	}
	res.Violations = keep
	return res, w
}

// Exec runs the program; for C02 it additionally re-executes it under permutations of its
// delivery steps (confluence check, DESIGN.md C02): the set of published digests must not depend
// on arrival order, duplication or loopback timing.
// setGovChain selects the governance chain id the processors of this run are configured with
// (message descriptors with emitter class 2 name that chain).
func setGovChain(c int64) { govChain = vaa.ChainID(uint16(c)) }

func (h procHarness) Exec(p *simkit.Program) *simkit.Result {
	setGovChain(p.C("govchain", 255))
	if p.C("mesh", 0) > 0 {
		return execMesh(h, p)
	}
	res, w := h.execOnce(p)
	k := int(p.C("confluence", 0))
	if p.Prop != "C02" || k <= 0 || len(res.Violations) > 0 || res.HarnessErr != "" || w.loop {
		return res
	}
	// The arrival-order clause is checked on pure aggregation programs only: one guardian set, every
	// message observed once, deliveries and loopbacks. Set changes, re-observations, peer VAAs plus
	// cleanup ticks and restarts re-base or drop aggregation state at a point in time, so the outcome
	// may legitimately depend on which side of that point a delivery falls.
	nset, seenMsg := 0, map[int64]bool{}
	for _, st := range p.Steps {
		switch st.Op {
		case "set":
			nset++
		case "msg":
			if seenMsg[st.A] {
				return res
			}
			seenMsg[st.A] = true
		case "obs", "loop":
		default:
			return res
		}
	}
	if nset != 1 || p.Steps[0].Op != "set" {
		return res
	}
	// identifier collisions (same VAA id, other body) make the store order-dependent by design
	ids := map[string]int64{}
	for _, st := range p.Steps {
		var m int64
		switch st.Op {
		case "msg", "inj", "vaa":
			m = st.A
		case "obs":
			m = st.B
		default:
			continue
		}
		d := decodeMsg(m)
		if prev, ok := ids[d.idKey()]; ok && prev != d.m {
			return res
		}
		ids[d.idKey()] = d.m
	}
	// "its own included": the statement's arrival-order clause presupposes that the node is a member
	// of the sets it aggregates under (a non-member's loopback cannot trigger the aggregation)
	for _, st := range p.Steps {
		if st.Op == "set" {
			member := false
			for _, k := range parseSet(st.A, st.X).keys {
				if k == w.own {
					member = true
				}
			}
			if !member {
				return res
			}
		}
	}
	base, baseModel := w.publishedSet(), w.acceptedSummary()
	for j := 1; j <= k; j++ {
		p2 := permuteDeliveries(p, uint64(j))
		r2, w2 := h.execOnce(p2)
		if r2.HarnessErr != "" {
			res.HarnessErr = "confluence run: " + r2.HarnessErr
			return res
		}
		res.Probes["confluence-permutations"]++
		for _, v := range r2.Violations {
			v.Key = "permuted:" + v.Key
			v.Detail = fmt.Sprintf("(under delivery permutation %d) %s", j, v.Detail)
			res.Violations = append(res.Violations, v)
		}
		if w2.acceptedSummary() != baseModel {
			// the order changed which signatures the node had to accept (e.g. a re-observation under a
			// newer guardian set moved in front of a signature): outcomes may legitimately differ
			res.Probes["confluence-model-differs"]++
			continue
		}
		if got := w2.publishedSet(); got != base && len(r2.Violations) == 0 {
			res.Log = append(res.Log, "=== permuted execution ===")
			for i, st := range p2.Steps {
				res.Log = append(res.Log, fmt.Sprintf("perm %d %s", i, st))
			}
			res.Log = append(res.Log, r2.Log...)
			res.Violations = append(res.Violations, simkit.Violation{Prop: "C02", Key: "publication-depends-on-arrival-order", Step: -1,
				Detail: fmt.Sprintf("the same multiset of deliveries in another order (permutation %d) publishes a different set of messages: %s vs %s", j, got, base)})
		}
		if len(res.Violations) > 0 {
			return res
		}
	}
	return res
}

// acceptedSummary renders the model's final accepted-signature sets and snapshots per digest.
func (w *world) acceptedSummary() string {
	var hs []string
	for h := range w.digests {
		hs = append(hs, h)
	}
	sort.Strings(hs)
	var sb strings.Builder
	sb.WriteString(w.pastSummaries)
	for _, h := range hs {
		m := w.digests[h]
		var as []string
		for a := range m.accepted {
			as = append(as, a[:8])
		}
		sort.Strings(as)
		fmt.Fprintf(&sb, "%s obs=%v snap=%s acc=%v;", h[:12], m.observed, m.snapshot, as)
	}
	return sb.String()
}

func (w *world) publishedSet() string {
	var ds []string
	for h, n := range w.everPublished {
		if n > 0 {
			ds = append(ds, h[:12])
		}
	}
	sort.Strings(ds)
	return strings.Join(ds, ",")
}

// permuteDeliveries shuffles the delivery steps (msg, inj, obs, vaa, loop) between barriers
// (set, tick, restart), duplicates a few observations, and appends the loopback deliveries the
// shuffle may have moved in front of their observation.
func permuteDeliveries(p *simkit.Program, j uint64) *simkit.Program {
	r := simkit.NewRng(p.Seed*1000003+j, "permute")
	q := *p
	q.Steps = nil
	var seg []simkit.Step
	flush := func() {
		for i := len(seg) - 1; i > 0; i-- {
			k := r.Intn(i + 1)
			seg[i], seg[k] = seg[k], seg[i]
		}
		n := 0
		for _, st := range seg {
			q.Steps = append(q.Steps, st)
			if st.Op == "obs" && r.P(0.15) {
				q.Steps = append(q.Steps, st) // duplicate delivery
			}
			if st.Op == "msg" || st.Op == "inj" {
				n++
			}
		}
		for i := 0; i < n; i++ {
			q.Steps = append(q.Steps, simkit.Step{Op: "loop"})
		}
		seg = seg[:0]
	}
	observed := map[int64]bool{}
	for _, st := range p.Steps {
		switch {
		case st.Op == "set" || st.Op == "tick" || st.Op == "restart":
			flush()
			q.Steps = append(q.Steps, st)
		case (st.Op == "msg" || st.Op == "inj") && observed[st.A]:
			// a re-observation re-bases the aggregation on the set in force now; where it falls
			// relative to the deliveries legitimately matters, so it stays where it is
			flush()
			q.Steps = append(q.Steps, st, simkit.Step{Op: "loop"})
		default:
			if st.Op == "msg" || st.Op == "inj" {
				observed[st.A] = true
			}
			seg = append(seg, st)
		}
	}
	flush()
	return &q
}

func TestVerifSim(t *testing.T) {
	if os.Getenv("VERIF_OUT") == "" {
		t.Skip("verification harness: run through /verif/bin/check")
	}
	if msg := simkit.Main(procHarness{t}); msg != "" {
		fmt.Println("HARNESS-TROUBLE: " + msg)
		t.Fatal(msg)
	}
}

var _ = binary.BigEndian
