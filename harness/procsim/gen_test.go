//go:build verif

package processor

import (
	"fmt"
	"strings"
	"time"

	"verif.local/simkit"
	"verif.local/simkit/ref"
)

// Scenario generation for procsim. Everything is drawn from one Rng before the run starts.

type genState struct {
	r     *simkit.Rng
	p     *simkit.Program
	sets  [][]int
	own   int
	msgs  []int64
	tier  string
	setIx int64
}

func (g *genState) add(op string, a, b, c, d int64, x string) {
	g.p.Steps = append(g.p.Steps, simkit.Step{Op: op, A: a, B: b, C: c, D: d, X: x})
}

func keysToX(keys []int) string {
	parts := make([]string, len(keys))
	for i, k := range keys {
		parts[i] = fmt.Sprint(k)
	}
	return strings.Join(parts, ",")
}

// newSet draws a guardian set of n distinct keys; ownPos < 0 leaves the node's key out.
func (g *genState) newSet(n int, withOwn bool) []int {
	perm := g.r.Perm(nKeys)
	var keys []int
	for _, k := range perm {
		if k == g.own {
			continue
		}
		if len(keys) >= n {
			break
		}
		keys = append(keys, k)
	}
	if withOwn && n > 0 {
		pos := g.r.Intn(n)
		if len(keys) >= n {
			keys[pos] = g.own
		} else {
			keys = append(keys, g.own)
		}
	}
	return keys
}

// mutateSet derives the next set: add, drop, permute, replace, own enters/leaves.
func (g *genState) mutateSet(prev []int) []int {
	keys := append([]int(nil), prev...)
	in := func(k int) bool {
		for _, x := range keys {
			if x == k {
				return true
			}
		}
		return false
	}
	fresh := func() int {
		for _, k := range g.r.Perm(nKeys) {
			if !in(k) {
				return k
			}
		}
		return -1
	}
	switch g.r.Pick(3, 3, 2, 3, 2, 1) {
	case 0: // add one or two
		for i := 0; i < 1+g.r.Intn(2) && len(keys) < 19; i++ {
			if k := fresh(); k >= 0 {
				keys = append(keys, k)
			}
		}
	case 1: // drop one or two
		for i := 0; i < 1+g.r.Intn(2) && len(keys) > 1; i++ {
			j := g.r.Intn(len(keys))
			keys = append(keys[:j], keys[j+1:]...)
		}
	case 2: // permute
		pm := g.r.Perm(len(keys))
		out := make([]int, len(keys))
		for i, j := range pm {
			out[i] = keys[j]
		}
		keys = out
	case 3: // replace some members
		for i := 0; i < 1+g.r.Intn(3) && len(keys) > 0; i++ {
			if k := fresh(); k >= 0 {
				keys[g.r.Intn(len(keys))] = k
			}
		}
	case 4: // own key enters or leaves
		if in(g.own) {
			for j, k := range keys {
				if k == g.own && len(keys) > 1 {
					keys = append(keys[:j], keys[j+1:]...)
					break
				}
			}
		} else if len(keys) < 19 {
			pos := g.r.Intn(len(keys) + 1)
			keys = append(keys[:pos], append([]int{g.own}, keys[pos:]...)...)
		}
	case 5: // completely new set
		return g.newSet(g.r.Range(1, 19), g.r.P(0.7))
	}
	return keys
}

func (g *genState) setSize() int {
	switch g.r.Pick(3, 3, 2, 2) {
	case 0:
		return g.r.Range(1, 4)
	case 1:
		return g.r.Range(5, 13)
	case 2:
		return g.r.Range(14, 19)
	default:
		return []int{1, 2, 3, 4, 6, 7, 9, 10, 13, 19}[g.r.Intn(10)]
	}
}

func (g *genState) pushSet(keys []int) {
	g.sets = append(g.sets, keys)
	g.add("set", g.setIx, 0, 0, 0, keysToX(keys))
	g.setIx++
	if g.r.P(0.1) {
		g.setIx += int64(g.r.Intn(3))
	}
}

func (g *genState) curSet() []int {
	if len(g.sets) == 0 {
		return nil
	}
	return g.sets[len(g.sets)-1]
}

func (g *genState) newMsg(allowGov bool) int64 {
	id := g.r.Intn(16)
	pc := g.r.Pick(6, 2, 1, 1, 1, 2, 1, 2)
	tc := g.r.Pick(6, 1, 2, 1)
	ec := g.r.Pick(4, 3, 0, 2)
	if allowGov && g.r.P(0.12) {
		ec = 2
	}
	tg := g.r.Pick(4, 2, 1, 2)
	bv := g.r.Intn(2)
	return encodeMsg(id, pc, tc, ec, tg, bv)
}

func (g *genState) pickMsg() int64 {
	if len(g.msgs) == 0 {
		g.msgs = append(g.msgs, g.newMsg(false))
	}
	return g.msgs[g.r.Intn(len(g.msgs))]
}

func (g *genState) byzVariant() int64 {
	return int64(1 + g.r.Intn(13))
}

func (g *genState) member(set []int) int64 {
	if len(set) == 0 {
		return int64(g.r.Intn(nKeys))
	}
	return int64(set[g.r.Intn(len(set))])
}

func (g *genState) nonMember(set []int) int64 {
	for _, k := range g.r.Perm(nKeys) {
		found := false
		for _, x := range set {
			if x == k {
				found = true
			}
		}
		if !found {
			return int64(k)
		}
	}
	return 0
}

// campaign emits the deliveries that bring message m to (around) quorum under the current set,
// with own observation, loopback and noise interleaved at drawn positions.
func (g *genState) campaign(m int64, noise float64) {
	set := g.curSet()
	if len(set) == 0 {
		return
	}
	n := len(set)
	q := ref.Quorum(n)
	target := q
	switch g.r.Pick(5, 2, 2, 1) {
	case 1:
		target = q - 1
	case 2:
		target = n
	case 3:
		target = q + 1
	}
	if target > n {
		target = n
	}
	others := target
	if containsInt(set, g.own) {
		others = target - 1
	}
	var deliveries []simkit.Step
	for _, i := range g.r.Perm(n) {
		if set[i] == g.own || len(deliveries) >= others {
			continue
		}
		deliveries = append(deliveries, simkit.Step{Op: "obs", A: int64(set[i]), B: m})
	}
	// duplicates
	for i := 0; i < len(deliveries) && g.r.P(0.15); i++ {
		deliveries = append(deliveries, deliveries[g.r.Intn(len(deliveries))])
	}
	// own observation somewhere, loopback somewhere after it
	msgPos := g.r.Intn(len(deliveries) + 1)
	if g.r.P(0.3) {
		msgPos = 0
	} else if g.r.P(0.3) {
		msgPos = len(deliveries)
	}
	var seq []simkit.Step
	seq = append(seq, deliveries[:msgPos]...)
	seq = append(seq, simkit.Step{Op: "msg", A: m})
	rest := deliveries[msgPos:]
	loopPos := g.r.Intn(len(rest) + 1)
	if g.r.P(0.4) {
		loopPos = 0
	}
	seq = append(seq, rest[:loopPos]...)
	seq = append(seq, simkit.Step{Op: "loop", A: 0})
	seq = append(seq, rest[loopPos:]...)
	// set rotation in the middle of the campaign
	if g.r.P(0.2) {
		pos := g.r.Intn(len(seq) + 1)
		next := g.mutateSet(set)
		g.sets = append(g.sets, next)
		st := simkit.Step{Op: "set", A: g.setIx, X: keysToX(next)}
		g.setIx++
		seq = append(seq[:pos:pos], append([]simkit.Step{st}, seq[pos:]...)...)
		// stragglers of old and new set
		for i := 0; i < g.r.Intn(6); i++ {
			seq = append(seq, simkit.Step{Op: "obs", A: g.member(next), B: m})
		}
		if g.r.P(0.5) {
			seq = append(seq, simkit.Step{Op: "msg", A: m}, simkit.Step{Op: "loop", A: 0})
			for i := 0; i < g.r.Intn(8); i++ {
				seq = append(seq, simkit.Step{Op: "obs", A: g.member(next), B: m})
			}
		}
	}
	// storage fault window somewhere inside the campaign (often around the quorum-making delivery)
	down, up := -1, -1
	if g.r.P(0.12) && len(seq) > 2 {
		down = g.r.Intn(len(seq))
		up = down + 1 + g.r.Intn(len(seq)-down)
	}
	fill := g.r.P(0.1)
	for i, st := range seq {
		if fill && (st.Op == "msg" || st.Op == "inj") {
			g.add("fillq", 0, 0, 0, 0, "")
		}
		if i == down {
			g.add("dbdown", 0, 0, 0, 0, "")
		}
		if i == up {
			g.add("dbup", 0, 0, 0, 0, "")
		}
		g.p.Steps = append(g.p.Steps, st)
		if g.r.P(noise) {
			g.noise(m)
		}
	}
	if down >= 0 {
		g.add("dbup", 0, 0, 0, 0, "")
	}
	// late duplicates / re-observation
	if g.r.P(0.3) {
		g.add("obs", g.member(g.curSet()), m, 0, 0, "")
	}
	if g.r.P(0.2) {
		g.add("msg", m, 0, 0, 0, "")
		g.add("loop", 0, 0, 0, 0, "")
	}
}

func govOf(m int64) int64 { return (m &^ (3 << 9)) | (2 << 9) }

func containsInt(xs []int, k int) bool {
	for _, x := range xs {
		if x == k {
			return true
		}
	}
	return false
}

// noise adds one adversarial or unrelated step.
func (g *genState) noise(m int64) {
	set := g.curSet()
	switch g.r.Pick(5, 3, 3, 4, 1, 1, 1, 2) {
	case 7:
		// cross-message replay: a guardian's genuine observation of the sibling message (same
		// identifier, other body) is processed, then its signature is offered for this message
		k := g.member(set)
		g.add("obs", k, m^(1<<13), 0, 0, "")
		g.add("obs", k, m, 5, 0, "")
	case 0: // byzantine variant of an observation for this message
		g.add("obs", g.member(set), m, g.byzVariant(), int64(g.r.Intn(64)), "")
	case 1: // valid signature by a non-member
		g.add("obs", g.nonMember(set), m, 0, 0, "")
	case 2: // observation for another message
		g.add("obs", g.member(set), g.pickMsg(), 0, 0, "")
	case 3: // inbound VAA, valid or not
		g.inbound(m)
	case 4:
		g.add("tick", int64(g.r.Range(1, 20))*int64(time.Second), 1, 0, 0, "")
	case 5:
		g.add("loop", int64(g.r.Intn(3)), 0, 0, 0, "")
	case 6:
		g.add("msg", g.pickMsg(), 0, 0, 0, "")
	}
}

func (g *genState) inbound(m int64) {
	variant := int64(0)
	if g.r.P(0.6) {
		variant = int64(1 + g.r.Intn(12))
	}
	setPick := int64(-1)
	if g.r.P(0.35) && len(g.sets) > 0 {
		setPick = int64(g.r.Intn(len(g.sets)))
	}
	d := int64(g.r.Pick(5, 3, 2, 2)) | int64(g.r.Intn(19))<<2 | int64(g.r.Intn(64))<<4
	if g.r.P(0.5) {
		d = int64(g.r.Pick(5, 3, 2, 2)) | int64(g.r.Intn(1024))<<2
	}
	mm := m
	if g.r.P(0.2) {
		mm = m ^ (1 << 13) // same identifier, other body
	}
	if decodeMsg(m).pc == 1 && g.r.P(0.5) {
		// the node's own VAA of this identifier has an empty payload (its decoder refuses such bytes
		// although it stores them); a peer's copy of the identifier carries a body that does decode
		mm = m &^ (7 << 4)
	}
	g.add("vaa", mm, setPick, variant, d, "")
}

func (procHarness) Gen(seed uint64, prop, tier string) *simkit.Program {
	r := simkit.NewRng(seed, "procsim/"+prop)
	p := &simkit.Program{Cfg: map[string]int64{}}
	g := &genState{r: r, p: p, tier: tier}
	g.own = r.Intn(nKeys)
	p.Cfg["own"] = int64(g.own)
	// the governance chain is configuration: 255 on devnet, 0 in the mainnet and testnet configs
	gc := int64([]int{255, 255, 0}[r.Intn(3)])
	setGovChain(gc)
	p.Cfg["reqcap"] = int64([]int{50, 50, 50, 1, 2, 0}[r.Intn(6)])
	if (prop == "C01" || prop == "C02") && r.P(0.12) {
		p.Cfg = map[string]int64{"govchain": gc}
		genMesh(g)
		return p
	}
	p.Cfg["govchain"] = gc
	// the node signs through the Cloud KMS signer's conversion code in half of the runs (not drawn
	// from r: the programs of a seed stay what they were before this was added)
	p.Cfg["kmssig"] = int64(simkit.Hash64(seed, "kmssig") % 2)
	if (prop == "C13" || prop == "C14") && r.P(0.3) {
		p.Cfg["notifier"] = 1
	}
	if r.P(0.25) {
		p.Cfg["loop"] = 1
	}
	if prop == "C02" && r.P(0.3) {
		p.Cfg["confluence"] = int64(2 + r.Intn(3))
		delete(p.Cfg, "loop")
	}
	if p.Cfg["confluence"] > 0 {
		genPure(g)
		return p
	}
	switch prop {
	case "C17":
		// retry schedules against a tiny (or absent) outbound request queue
		p.Cfg["reqcap"] = int64(r.Intn(3))
		genC14(g)
	case "C14":
		genC14(g)
	case "C13":
		genC13(g)
	default:
		genAggregation(g, prop)
	}
	return p
}

// genAggregation: C01 / C02 / C03 scenarios.
func genAggregation(g *genState, prop string) {
	r := g.r
	// sometimes traffic before the first guardian set is known
	if r.P(0.15) {
		for i := 0; i < 1+r.Intn(3); i++ {
			switch r.Intn(3) {
			case 0:
				g.add("msg", g.pickMsg(), 0, 0, 0, "")
			case 1:
				g.add("obs", int64(r.Intn(nKeys)), g.pickMsg(), 0, 0, "")
			default:
				g.inbound(g.pickMsg())
			}
		}
	}
	g.pushSet(g.newSet(g.setSize(), r.P(0.8)))
	nm := 1 + r.Intn(3)
	for i := 0; i < nm; i++ {
		g.msgs = append(g.msgs, g.newMsg(true))
	}
	if r.P(0.3) { // identifier collision: same id, other body
		g.msgs = append(g.msgs, g.msgs[0]^(1<<13))
	}
	noise := []float64{0, 0.1, 0.3, 0.6}[r.Intn(4)]
	if prop == "C03" && noise < 0.3 {
		noise = 0.5
	}
	rounds := 1 + r.Intn(4)
	for i := 0; i < rounds; i++ {
		switch r.Pick(8, 2, 1, 2, 1, 1, 1) {
		case 6:
			// own observation, some signatures, then faster peers' finished VAA arrives and a cleanup
			// pass runs a few seconds later - well inside the settlement window - before the missing
			// signatures come in: the node still completes and publishes its own VAA
			m := g.pickMsg()
			set := g.curSet()
			g.add("msg", m, 0, 0, 0, "")
			g.add("loop", 0, 0, 0, 0, "")
			half := len(set) / 3
			for i, k := range set {
				if i < half {
					g.add("obs", int64(k), m, 0, 0, "")
				}
			}
			g.add("vaa", m, -1, 0, int64(r.Intn(19))<<2, "")
			g.add("tick", int64(r.Range(2, 25))*int64(time.Second), 1, 0, 0, "")
			for i, k := range set {
				if i >= half {
					g.add("obs", int64(k), m, 0, 0, "")
				}
			}
		case 5:
			// a message is published; some minutes later (well inside the hour for which a published
			// entry is remembered) the whole network re-observes it and every guardian signs again
			m := g.pickMsg()
			g.campaign(m, 0)
			g.add("tick", int64(30*time.Second), int64(r.Range(11, 100)), 0, 0, "")
			g.add("msg", m, 0, 0, 0, "")
			g.add("loop", 0, 0, 0, 0, "")
			for _, k := range g.curSet() {
				g.add("obs", int64(k), m, 0, 0, "")
			}
		case 0:
			g.campaign(g.pickMsg(), noise)
		case 1: // peer VAA first, then own campaign (late observation)
			m := g.pickMsg()
			g.add("vaa", m, -1, 0, int64(r.Pick(5, 0, 2, 2))|int64(r.Intn(19))<<2, "")
			if r.P(0.5) {
				g.add("vaa", m, -1, 0, int64(2)|int64(r.Intn(19))<<2, "") // second copy with other signatures
			}
			if r.P(0.3) {
				g.add("tick", int64(31*time.Second), 1, 0, 0, "")
			}
			g.campaign(m, noise)
		case 2:
			g.pushSet(g.mutateSet(g.curSet()))
		case 3:
			m := g.pickMsg()
			g.add("inj", govOf(m), int64(r.Intn(4)), 0, 0, "")
			g.add("loop", 0, 0, 0, 0, "")
			for _, k := range g.curSet() {
				if r.P(0.8) {
					g.add("obs", int64(k), govOf(m), 0, 0, "")
				}
			}
		case 4:
			if g.p.Cfg["loop"] == 1 && r.P(0.5) {
				g.add("rerun", 0, 0, 0, 0, "")
				break
			}
			g.add("restart", 0, 0, 0, 0, "")
			if r.P(0.8) {
				g.pushSet(g.curSet())
			}
		}
		if r.P(0.2) {
			g.add("tick", int64(r.Range(1, 40))*int64(time.Second), int64(1+r.Intn(2)), 0, 0, "")
		}
	}
}

// genC13: adversarial histories. Any order, any field values, set updates to empty sets,
// inputs before the first set, restarts, ticks of any length.
func genC13(g *genState) {
	r := g.r
	if r.P(0.6) {
		genAggregation(g, "C13")
	}
	n := 3 + r.Intn(25)
	for i := 0; i < 3; i++ {
		g.msgs = append(g.msgs, g.newMsg(true))
	}
	hbStorm := r.P(0.2)
	for i := 0; i < n; i++ {
		m := g.pickMsg()
		if hbStorm && r.P(0.25) {
			// one guardian key shows up behind more peers than the heartbeat table keeps per guardian
			k := int64(r.Intn(nKeys))
			if cs := g.curSet(); len(cs) > 0 && r.P(0.7) {
				k = int64(cs[r.Intn(len(cs))])
			}
			for j := 0; j < 14+r.Intn(5); j++ {
				g.add("hb", k, int64(j), 0, 0, "")
			}
			hbStorm = r.P(0.5)
		}
		switch r.Pick(4, 4, 3, 3, 3, 2, 2, 1, 2) {
		case 0:
			if r.P(0.15) {
				g.add("fillq", 0, 0, 0, 0, "")
			}
			g.add("msg", m, 0, 0, 0, "")
		case 1:
			g.add("obs", int64(r.Intn(nKeys)), m, int64(r.Intn(14)), int64(r.Intn(64)), "")
		case 2:
			g.inbound(m)
		case 3:
			if r.P(0.15) {
				g.add("fillq", 0, 0, 0, 0, "")
			}
			g.add("inj", m, int64(r.Intn(5)), 0, 0, "")
		case 4:
			dt := []int64{int64(time.Second), int64(29 * time.Second), int64(31 * time.Second), int64(5 * time.Minute), int64(61 * time.Minute), int64(26 * time.Hour)}[r.Intn(6)]
			g.add("tick", dt, int64(1+r.Intn(3)), 0, 0, "")
		case 5:
			switch r.Pick(3, 1, 2) {
			case 0:
				g.pushSet(g.newSet(g.setSize(), r.P(0.7)))
			case 1:
				g.pushSet(nil) // a guardian set without keys
			default:
				if cs := g.curSet(); len(cs) > 0 {
					g.pushSet(g.mutateSet(cs))
				} else {
					g.pushSet(g.newSet(1+r.Intn(3), true))
				}
			}
		case 6:
			g.add("loop", int64(r.Intn(3)), 0, 0, 0, "")
		case 7:
			g.add("restart", 0, 0, 0, 0, "")
		case 8:
			// complete a message quickly (n small) then touch it again
			g.campaign(m, 0)
			g.add("msg", m, 0, 0, 0, "")
		}
	}
}

// genC14: retry / expiry schedules under ticks of every length.
func genC14(g *genState) {
	r := g.r
	if r.P(0.1) {
		// an operator injects a governance VAA before the node has fetched its first guardian set
		g.add("inj", govOf(encodeMsg(13, 0, 0, 2, 0, 0)), 0, 0, 0, "")
		g.add("loop", 0, 0, 0, 0, "")
		if r.P(0.5) {
			g.add("tick", int64(30*time.Second), int64(1+r.Intn(25)), 0, 0, "")
		}
	}
	g.pushSet(g.newSet(2+r.Intn(8), r.P(0.85)))
	set := g.curSet()
	q := ref.Quorum(len(set))
	nm := 1 + r.Intn(4)
	used := map[int]bool{}
	var plan []func()
	for i := 0; i < nm; i++ {
		id := r.Intn(14)
		for used[id] {
			id = (id + 1) % 14
		}
		used[id] = true
		m := encodeMsg(id, r.Pick(6, 0, 1, 1, 1, 1, 0, 2), 0, r.Pick(3, 2, 0, 1), r.Pick(3, 2, 1, 1), 0)
		g.msgs = append(g.msgs, m)
		kind := r.Pick(5, 3, 3, 2, 1)
		plan = append(plan, func() {
			switch kind {
			case 0: // observed, below quorum: pending
				g.add("msg", m, 0, 0, 0, "")
				if r.P(0.8) {
					g.add("loop", 0, 0, 0, 0, "")
				}
				k := 0
				for _, key := range set {
					if key != g.own && k < q-2 && r.P(0.6) {
						g.add("obs", int64(key), m, 0, 0, "")
						k++
					}
				}
			case 1: // never observed by this node
				for _, key := range set {
					if key != g.own && r.P(0.5) {
						g.add("obs", int64(key), m, 0, 0, "")
					}
				}
				g.add("obs", g.member(set), m, 0, 0, "")
			case 2: // published
				g.add("msg", m, 0, 0, 0, "")
				g.add("loop", 0, 0, 0, 0, "")
				for _, key := range set {
					g.add("obs", int64(key), m, 0, 0, "")
				}
			case 3: // late: a quorum VAA is stored, own observation never completes
				g.add("vaa", m, -1, 0, 2, "")
				g.add("msg", m, 0, 0, 0, "")
				g.add("loop", 0, 0, 0, 0, "")
			case 4: // injected governance VAA below quorum
				g.add("inj", govOf(m), 0, 0, 0, "")
				g.add("loop", 0, 0, 0, 0, "")
			}
		})
	}
	sec := int64(time.Second)
	min := int64(time.Minute)
	tickBurst := func() {
		if g.p.Cfg["loop"] == 1 && r.P(0.5) {
			// a busy network: something arrives every few seconds while time passes
			for i := 0; i < 6+r.Intn(60); i++ {
				g.add("tick", int64(r.Range(2, 14))*sec, 1, 0, 0, "")
				g.add("obs", g.nonMember(set), encodeMsg(13, 0, 0, 0, 0, 0), 0, 0, "")
			}
			return
		}
		if r.P(0.07) {
			// the store is unavailable while cleanup passes run
			g.add("dbdown", 0, 0, 0, 0, "")
			g.add("tick", 30*sec, int64(1+r.Intn(12)), 0, 0, "")
			g.add("dbup", 0, 0, 0, 0, "")
			return
		}
		switch r.Pick(6, 3, 3, 3, 2, 1) {
		case 0: // regular
			g.add("tick", 30*sec, int64(1+r.Intn(30)), 0, 0, "")
		case 1: // jittered
			g.add("tick", int64(r.Range(1, 90))*sec+int64(r.Intn(1000)), int64(1+r.Intn(10)), 0, 0, "")
		case 2: // long stall
			g.add("tick", int64(r.Range(4, 400))*min+int64(r.Intn(3))-1, 1, 0, 0, "")
		case 3: // exactly on a threshold +-1ns
			base := []int64{30 * sec, 5 * min, 60 * min, 55 * min, 10 * min}[r.Intn(5)]
			g.add("tick", base-1, 1, 0, 0, "")
			g.add("tick", 1, 1, 0, 0, "")
			g.add("tick", 1, 1, 0, 0, "")
		case 4: // five-minute cadence for a while
			g.add("tick", 5*min, int64(1+r.Intn(14)), 0, 0, "")
		case 5: // days
			g.add("tick", int64(r.Range(1, 72))*60*min, 1, 0, 0, "")
		}
	}
	// interleave creation and ticking
	for _, f := range plan {
		f()
		for i := 0; i < r.Intn(3); i++ {
			tickBurst()
		}
	}
	for i := 0; i < 2+r.Intn(6); i++ {
		tickBurst()
		if g.p.Cfg["loop"] == 1 && r.P(0.12) {
			g.add("rerun", 0, 0, 0, 0, "")
		}
		if r.P(0.15) {
			// a late signature or a re-observation in the middle of the schedule
			m := g.pickMsg()
			if r.P(0.5) {
				g.add("obs", g.member(set), m, 0, 0, "")
			} else {
				g.add("msg", m, 0, 0, 0, "")
				g.add("loop", 0, 0, 0, 0, "")
			}
		}
	}
	if g.tier == "thorough" && r.P(0.03) {
		// budget exhaustion horizon: 60 simulated days of regular ticks
		g.add("tick", 30*sec, 2*60*24*60+100, 0, 0, "")
	}
}

// genPure: one guardian set containing the node, a few messages each observed once, their
// deliveries (valid, duplicated, byzantine) in a drawn order. Used for the C02 confluence check.
func genPure(g *genState) {
	r := g.r
	g.pushSet(g.newSet(g.setSize(), true))
	set := g.curSet()
	q := ref.Quorum(len(set))
	nm := 1 + r.Intn(3)
	used := map[int]bool{}
	var steps []simkit.Step
	for i := 0; i < nm; i++ {
		id := r.Intn(14)
		for used[id] {
			id = (id + 1) % 14
		}
		used[id] = true
		m := encodeMsg(id, r.Pick(6, 2, 1, 1, 1, 2, 1, 2), r.Pick(6, 1, 2, 1), r.Pick(4, 3, 0, 2), r.Pick(4, 2, 1, 2), 0)
		target := []int{q - 1, q, q, q + 1, len(set)}[r.Intn(5)]
		steps = append(steps, simkit.Step{Op: "msg", A: m}, simkit.Step{Op: "loop"})
		n := 0
		for _, k := range r.Perm(len(set)) {
			if set[k] == g.own || n >= target-1 {
				continue
			}
			steps = append(steps, simkit.Step{Op: "obs", A: int64(set[k]), B: m})
			n++
			if r.P(0.2) {
				steps = append(steps, simkit.Step{Op: "obs", A: int64(set[k]), B: m, C: g.byzVariant(), D: int64(r.Intn(64))})
			}
		}
		if r.P(0.3) {
			steps = append(steps, simkit.Step{Op: "obs", A: g.nonMember(set), B: m})
		}
	}
	for i := len(steps) - 1; i > 0; i-- {
		k := r.Intn(i + 1)
		steps[i], steps[k] = steps[k], steps[i]
	}
	g.p.Steps = append(g.p.Steps, steps...)
	for i := 0; i < nm+1; i++ {
		g.add("loop", 0, 0, 0, 0, "")
	}
}
