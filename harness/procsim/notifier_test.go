//go:build verif

package processor

import (
	"bytes"
	"io"
	"net/http"
	"strings"
	"sync/atomic"

	"github.com/alephium/wormhole-fork/node/pkg/notify/discord"
	"go.uber.org/zap"
)

// fakeDiscord plays the Discord HTTP API for the node's real notifier (configured in some runs, as
// it is in production): one guild, one channel with the configured name, no roles; every message
// is accepted and counted. Installed as http.DefaultTransport for the duration of a run.
type fakeDiscord struct {
	posts atomic.Int64
}

func (f *fakeDiscord) RoundTrip(req *http.Request) (*http.Response, error) {
	mk := func(code int, body string) *http.Response {
		return &http.Response{StatusCode: code, Status: http.StatusText(code), Proto: "HTTP/1.1", ProtoMajor: 1, ProtoMinor: 1,
			Header: http.Header{"Content-Type": []string{"application/json"}}, Body: io.NopCloser(bytes.NewReader([]byte(body))), ContentLength: int64(len(body)), Request: req}
	}
	if req.Body != nil {
		io.Copy(io.Discard, req.Body)
		req.Body.Close()
	}
	p := req.URL.Path
	switch {
	case strings.HasSuffix(p, "/users/@me/guilds"):
		return mk(200, `[{"id":"1","name":"guardians"}]`), nil
	case strings.HasSuffix(p, "/guilds/1/channels"):
		return mk(200, `[{"id":"2","guild_id":"1","name":"alerts","type":0}]`), nil
	case strings.HasSuffix(p, "/guilds/1/roles"):
		return mk(200, `[]`), nil
	case strings.HasSuffix(p, "/channels/2/messages") && req.Method == "POST":
		f.posts.Add(1)
		return mk(200, `{"id":"3","channel_id":"2","content":""}`), nil
	}
	return mk(404, `{"message":"404: Not Found","code":0}`), nil
}

func newSimNotifier() (*discord.DiscordNotifier, error) {
	return discord.NewDiscordNotifier("simulated-token", "alerts", zap.NewNop())
}
