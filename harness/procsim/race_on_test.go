//go:build verif && race

package processor

const raceBuild = true
