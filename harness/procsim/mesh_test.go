//go:build verif

package processor

// Mesh mode of procsim (C01, C02): several real Processors, each with its own key, badger store and
// Run loop, inside one synctest bubble. The harness plays everything between them:
//   - the gossip network: what a node puts on its sendC is parsed and delivered to the other nodes'
//     obsvC / signedInC after a delay, or dropped, duplicated, reordered, cut by a partition;
//   - p2p's request path, the re-observation dispatcher (11 minute suppression) and the chain
//     watchers: an ObservationRequest of one node makes every reachable node's "watcher" hand the
//     message to its processor again a few seconds later;
//   - the chain: "emit" steps show a message to a subset of the nodes at slightly different times;
//   - process crashes: a node is stopped (its aggregation state is lost, its store survives) and
//     comes back later with the current guardian set.
// It is a discrete-event simulation: one driver goroutine owns the event queue, delivers one event,
// waits for quiescence, collects what the nodes sent. Every decision about a gossip message (drop,
// duplicate, delay, tie-break between events due at the same instant) is a hash of the run's seed
// and of the message's content, sender, receiver and occurrence count, never of the order in which
// a node happened to emit it (the cleanup pass walks a Go map).

import (
	"bytes"
	"context"
	"encoding/hex"
	"fmt"
	"os"
	"path/filepath"
	"runtime/debug"
	"sort"
	"strings"
	"sync"
	"testing"
	"testing/synctest"
	"time"

	"github.com/alephium/wormhole-fork/node/pkg/common"
	"github.com/alephium/wormhole-fork/node/pkg/db"
	gossipv1 "github.com/alephium/wormhole-fork/node/pkg/proto/gossip/v1"
	"github.com/alephium/wormhole-fork/node/pkg/reporter"
	"github.com/alephium/wormhole-fork/node/pkg/vaa"
	"go.uber.org/zap"
	"google.golang.org/protobuf/proto"

	"verif.local/simkit"
	"verif.local/simkit/ref"
)

type meshNode struct {
	idx, key int
	member   bool
	dir      string
	db       *db.Database
	p        *Processor
	up       bool

	lockC     chan *common.MessagePublication
	setC      chan *common.GuardianSet
	sendC     chan []byte
	obsvC     chan *gossipv1.SignedObservation
	reqC      chan *gossipv1.ObservationRequest
	injectC   chan *vaa.VAA
	signedInC chan *gossipv1.SignedVAAWithQuorum
	cancel    context.CancelFunc
	runDone   chan struct{}
	stopDr    chan struct{}

	mu   sync.Mutex
	out  [][]byte
	reqs []*gossipv1.ObservationRequest

	observed  map[string]bool          // digest hex -> observed since the last restart
	everObs   map[string]bool          // digest hex -> observed at any time
	store     map[string][]byte        // idKey -> bytes last seen in the store
	reobsLast map[string]time.Duration // "chain/txhash" -> when the dispatcher last forwarded it
	setIdx    int                      // index into mesh.sets of the set this node was last handed
}

type meshSet struct {
	index uint32
	keys  []int // indices into simKeys; the first ones belong to running nodes, the others to absent guardians
}

func (s *meshSet) addrs() [][]byte {
	out := make([][]byte, len(s.keys))
	for i, k := range s.keys {
		out[i] = simAddrs[k].Bytes()
	}
	return out
}

const (
	evObs = iota
	evVAA
	evChain
	evReq
	evRestart
	evSet
)

type meshEvent struct {
	at   time.Duration
	tie  uint64
	kind int
	dst  int
	src  int
	obs  *gossipv1.SignedObservation
	sv   *gossipv1.SignedVAAWithQuorum
	req  *gossipv1.ObservationRequest
	msg  int64
	note string
}

type mesh struct {
	prog  *simkit.Program
	res   *simkit.Result
	log   *simkit.Log
	stats *simkit.Stats
	seed  uint64
	start time.Time
	step  int

	nodes []*meshNode
	sets  []*meshSet
	q     []*meshEvent
	occ   map[string]int // occurrence counter per (kind, src, dst, content)

	dropPm, dupPm int64
	maxDelay      time.Duration
	group         []int // partition group per node; all equal = no partition
	faultsOn      bool
	healedAt      time.Duration
	lastSetAt     time.Duration

	msgs      map[string]msgDesc       // digest hex -> descriptor
	byTx      map[string]msgDesc       // "chain/txhash hex" -> descriptor
	emittedAt map[string]time.Duration // digest hex -> first emission
	supCtx    context.Context
	panicked  *simkit.Violation
	dead      bool

	nDelivered, nDropped, nDup, nPublished, nReobs, nInboundStored int
}

func (m *mesh) now() time.Duration { return time.Since(m.start) }

func (m *mesh) violate(prop, key, format string, a ...interface{}) {
	for _, e := range m.res.Violations {
		if e.Prop == prop && e.Key == key {
			return
		}
	}
	m.res.Violations = append(m.res.Violations, simkit.Violation{Prop: prop, Key: key, Step: m.step, Detail: fmt.Sprintf(format, a...)})
	m.log.Add("VIOLATION %s %s", prop, key)
}

func (m *mesh) curSet() *meshSet { return m.sets[len(m.sets)-1] }

func (m *mesh) gsOf(s *meshSet) *common.GuardianSet {
	gs := &common.GuardianSet{Index: s.index}
	for _, k := range s.keys {
		gs.Keys = append(gs.Keys, simAddrs[k])
	}
	return gs
}

func (m *mesh) startNode(n *meshNode) {
	n.lockC = make(chan *common.MessagePublication)
	n.setC = make(chan *common.GuardianSet)
	n.sendC = make(chan []byte)
	n.obsvC = make(chan *gossipv1.SignedObservation, 50)
	n.reqC = make(chan *gossipv1.ObservationRequest, 50)
	n.injectC = make(chan *vaa.VAA)
	n.signedInC = make(chan *gossipv1.SignedVAAWithQuorum, 50)
	gst := common.NewGuardianSetState(nil)
	ev := reporter.EventListener(zap.NewNop())
	sub := ev.Subscribe()
	mp, qc := sub.Channels.MessagePublicationC, sub.Channels.VAAQuorumC
	n.p = NewProcessor(m.supCtx, n.db, n.lockC, n.setC, n.sendC, n.obsvC, n.reqC, n.injectC, n.signedInC,
		simSigner{n.key, n.key%2 == 1}, gst, ev, nil, govChain, govEmitter)
	n.stopDr = make(chan struct{})
	stop, sendC, reqC := n.stopDr, n.sendC, n.reqC
	go func() { // plays p2p's sending side
		for {
			select {
			case b := <-sendC:
				n.mu.Lock()
				n.out = append(n.out, b)
				n.mu.Unlock()
			case r := <-reqC:
				n.mu.Lock()
				n.reqs = append(n.reqs, r)
				n.mu.Unlock()
			case <-mp:
			case <-qc:
			case <-stop:
				return
			}
		}
	}()
	ctx, cancel := context.WithCancel(m.supCtx)
	n.cancel = cancel
	n.runDone = make(chan struct{})
	p, done := n.p, n.runDone
	go func() {
		defer close(done)
		defer func() {
			if r := recover(); r != nil {
				m.panicked = &simkit.Violation{Prop: "C13", Key: "mesh:panic", Step: m.step, Detail: fmt.Sprintf("node %d: panic: %v\n%s", n.idx, r, firstRepoFrame(debug.Stack()))}
				m.dead = true
			}
		}()
		_ = p.Run(ctx)
	}()
	n.up = true
	n.observed = map[string]bool{}
	n.reobsLast = map[string]time.Duration{}
}

func firstRepoFrame(stack []byte) string {
	for _, l := range strings.Split(string(stack), "\n") {
		if strings.Contains(l, "wormhole-fork/node/pkg/processor.(*Processor)") {
			return l
		}
	}
	return ""
}

func (m *mesh) stopNode(n *meshNode) {
	if !n.up {
		return
	}
	n.cancel()
	<-n.runDone
	if n.p.cleanup != nil {
		n.p.cleanup.Stop()
	}
	synctest.Wait()
	close(n.stopDr)
	synctest.Wait()
	n.up = false
}

// handOff sends v on an unbuffered input channel of a node's Run loop and waits for quiescence.
func meshHandOff[T any](m *mesh, ch chan T, v T) {
	done := make(chan struct{})
	go func() {
		select {
		case ch <- v:
		case <-done:
		}
	}()
	synctest.Wait()
	close(done)
	synctest.Wait()
}

func (m *mesh) push(e *meshEvent) { m.q = append(m.q, e) }

// peek returns the index of the earliest event due at or before limit (-1: none).
func (m *mesh) peek(limit time.Duration) int {
	best := -1
	for i, e := range m.q {
		if e.at > limit {
			continue
		}
		if best < 0 || e.at < m.q[best].at || (e.at == m.q[best].at && e.tie < m.q[best].tie) {
			best = i
		}
	}
	return best
}

func (m *mesh) take(i int) *meshEvent {
	e := m.q[i]
	m.q[i] = m.q[len(m.q)-1]
	m.q = m.q[:len(m.q)-1]
	return e
}

// route decides the fate of one gossip message from src to dst. content identifies the message
// independently of emission order.
func (m *mesh) route(kind, src, dst int, content []byte, mk func() *meshEvent) {
	ck := fmt.Sprintf("%d/%d/%d/%x", kind, src, dst, content)
	m.occ[ck]++
	h := mh(m.seed, uint64(kind), uint64(src), uint64(dst), uint64(m.occ[ck]), hashBytes(content))
	if m.group[src] != m.group[dst] {
		m.nDropped++
		m.stats.Fault("partition-drop")
		return
	}
	if m.faultsOn && int64(h%1000) < m.dropPm {
		m.nDropped++
		m.stats.Fault("message-dropped")
		return
	}
	copies := 1
	if m.faultsOn && int64((h>>10)%1000) < m.dupPm {
		copies = 2
		m.nDup++
		m.stats.Fault("message-duplicated")
	}
	for c := 0; c < copies; c++ {
		hd := mh(h, uint64(c), 77)
		d := 5*time.Millisecond + time.Duration(hd%uint64(m.maxDelay/time.Millisecond+1))*time.Millisecond
		if !m.faultsOn && d > time.Second {
			d = 5*time.Millisecond + d%time.Second
		}
		e := mk()
		e.at = m.now() + d
		e.tie = hd
		e.kind, e.src, e.dst = kind, src, dst
		m.push(e)
	}
}

// mh hashes a seed and integers (order-independent decisions, rule D3).
func mh(seed uint64, parts ...uint64) uint64 {
	ss := make([]string, len(parts))
	for i, x := range parts {
		ss[i] = fmt.Sprint(x)
	}
	return simkit.Hash64(seed, ss...)
}

func hashBytes(b []byte) uint64 {
	var h uint64 = 1469598103934665603
	for _, c := range b {
		h ^= uint64(c)
		h *= 1099511628211
	}
	return h
}

// collect takes what the nodes sent since the last call, judges it and schedules the deliveries.
func (m *mesh) collect() {
	for _, n := range m.nodes {
		n.mu.Lock()
		out, reqs := n.out, n.reqs
		n.out, n.reqs = nil, nil
		n.mu.Unlock()
		for _, b := range out {
			var g gossipv1.GossipMessage
			if err := proto.Unmarshal(b, &g); err != nil {
				m.violate("C01", "mesh:undecodable-gossip", "node %d put undecodable bytes on its send queue: %v", n.idx, err)
				continue
			}
			switch t := g.Message.(type) {
			case *gossipv1.GossipMessage_SignedObservation:
				o := t.SignedObservation
				m.judgeObservation(n, o)
				for _, d := range m.nodes {
					if d.idx == n.idx {
						continue // the processor loops its own signature back itself
					}
					o2 := proto.Clone(o).(*gossipv1.SignedObservation)
					m.route(evObs, n.idx, d.idx, append(append([]byte{}, o.Hash...), o.Signature...), func() *meshEvent { return &meshEvent{obs: o2} })
				}
			case *gossipv1.GossipMessage_SignedVaaWithQuorum:
				sv := t.SignedVaaWithQuorum
				m.judgeBroadcastVAA(n, sv.Vaa)
				for _, d := range m.nodes {
					if d.idx == n.idx {
						continue
					}
					sv2 := proto.Clone(sv).(*gossipv1.SignedVAAWithQuorum)
					m.route(evVAA, n.idx, d.idx, sv.Vaa, func() *meshEvent { return &meshEvent{sv: sv2} })
				}
			default:
				m.violate("C01", "mesh:unexpected-gossip", "node %d sent an unexpected gossip message type %T", n.idx, g.Message)
			}
		}
		for _, r := range reqs {
			m.log.Add("n%d request chain=%d tx=%s", n.idx, r.ChainId, shortHex(r.TxHash))
			for _, d := range m.nodes {
				r2 := proto.Clone(r).(*gossipv1.ObservationRequest)
				if d.idx == n.idx {
					// p2p hands the node's own request to the local dispatcher directly
					m.push(&meshEvent{at: m.now() + time.Millisecond, tie: mh(m.seed, 5, uint64(n.idx), hashBytes(r.TxHash)), kind: evReq, src: n.idx, dst: n.idx, req: r2})
					continue
				}
				m.route(evReq, n.idx, d.idx, append([]byte{byte(r.ChainId)}, r.TxHash...), func() *meshEvent { return &meshEvent{req: r2} })
			}
		}
	}
	m.checkStores()
}

func (m *mesh) judgeObservation(n *meshNode, o *gossipv1.SignedObservation) {
	hx := hex.EncodeToString(o.Hash)
	d, known := m.msgs[hx]
	m.log.Add("n%d obs %s", n.idx, shortHex(o.Hash))
	if !known || !n.everObs[hx] {
		m.violate("C02", "mesh:signed-unobserved-message", "node %d broadcast a signature over digest %s, which is not the digest of any message its watchers reported", n.idx, shortHex(o.Hash))
		return
	}
	if !bytes.Equal(o.Addr, simAddrs[n.key].Bytes()) {
		m.violate("C02", "mesh:observation-wrong-address", "node %d broadcast an observation naming guardian %x", n.idx, o.Addr)
	}
	if addr, err := ref.Recover(o.Hash, o.Signature); err != nil || !bytes.Equal(addr, simAddrs[n.key].Bytes()) {
		m.violate("C02", "mesh:observation-bad-signature", "node %d broadcast a signature over %s that does not recover to its own key", n.idx, d.idKey())
	}
	if !bytes.Equal(o.TxHash, d.publication().TxHash.Bytes()) {
		m.violate("C02", "mesh:observation-wrong-txhash", "node %d broadcast an observation of %s with transaction hash %x", n.idx, d.idKey(), o.TxHash)
	}
}

// setByIndex returns the guardian set with the given index, if it ever existed.
func (m *mesh) setByIndex(ix uint32) *meshSet {
	for _, s := range m.sets {
		if s.index == ix {
			return s
		}
	}
	return nil
}

// verifyVAA is the C01 predicate against the set the VAA names, plus "only honest observers signed".
func (m *mesh) verifyVAA(data []byte) (msgDesc, error) {
	v, err := ref.Decode(data)
	if err != nil {
		return msgDesc{}, fmt.Errorf("undecodable: %v", err)
	}
	s := m.setByIndex(v.SetIndex)
	if s == nil {
		return msgDesc{}, fmt.Errorf("names guardian set %d, which never existed", v.SetIndex)
	}
	if err := ref.VerifyDecoded(v, s.addrs()); err != nil {
		return msgDesc{}, fmt.Errorf("against set #%d %v: %v", s.index, s.keys, err)
	}
	hx := hex.EncodeToString(ref.Digest(v.BodyRaw))
	d, ok := m.msgs[hx]
	if !ok {
		return msgDesc{}, fmt.Errorf("body is not a message of the simulated chain")
	}
	for _, sg := range v.Sigs {
		k := s.keys[sg.Index]
		var signer *meshNode
		for _, n := range m.nodes {
			if n.key == k {
				signer = n
			}
		}
		if signer == nil || !signer.everObs[hx] {
			return d, fmt.Errorf("carries a signature of guardian key %d, which never observed %s", k, d.idKey())
		}
	}
	return d, nil
}

func (m *mesh) judgeBroadcastVAA(n *meshNode, data []byte) {
	d, err := m.verifyVAA(data)
	if err != nil {
		m.violate("C01", "mesh:broadcast-fails-verification", "node %d broadcast a signed VAA that %v", n.idx, err)
		return
	}
	m.log.Add("n%d vaa %s", n.idx, d.idKey())
	hx := hex.EncodeToString(d.digest())
	if !n.observed[hx] {
		m.violate("C02", "mesh:published-without-own-observation", "node %d broadcast the signed VAA of %s although its watchers have not reported that message since it started", n.idx, d.idKey())
	}
	m.nPublished++
}

// checkStores compares every node's store with the last look: whatever appears must verify.
func (m *mesh) checkStores() {
	var hexes []string
	for hx := range m.msgs {
		hexes = append(hexes, hx)
	}
	sort.Strings(hexes)
	for _, n := range m.nodes {
		if n.db == nil || !n.up {
			continue
		}
		for _, hx := range hexes {
			d := m.msgs[hx]
			b, err := n.db.GetSignedVAABytes(d.vaaID())
			if err != nil {
				if n.store[d.idKey()] != nil && err == db.ErrVAANotFound {
					m.violate("C02", "mesh:stored-vaa-vanished", "node %d no longer has the VAA of %s", n.idx, d.idKey())
				}
				continue
			}
			if bytes.Equal(b, n.store[d.idKey()]) {
				continue
			}
			first := n.store[d.idKey()] == nil
			n.store[d.idKey()] = append([]byte(nil), b...)
			d2, err := m.verifyVAA(b)
			if err != nil {
				m.violate("C01", "mesh:stored-fails-verification", "node %d stored under %s a VAA that %v", n.idx, d.idKey(), err)
				continue
			}
			if d2.idKey() != d.idKey() {
				m.violate("C01", "mesh:stored-under-wrong-id", "node %d stored the VAA of %s under the id of %s", n.idx, d2.idKey(), d.idKey())
			}
			if first {
				m.log.Add("n%d stored %s", n.idx, d.idKey())
				if !n.observed[hex.EncodeToString(d2.digest())] {
					m.nInboundStored++
				}
			}
		}
	}
}

func (m *mesh) deliver(e *meshEvent) {
	n := m.nodes[e.dst]
	switch e.kind {
	case evRestart:
		d, err := openStore(n.dir)
		if err != nil {
			m.res.HarnessErr = "mesh reopen: " + err.Error()
			m.dead = true
			return
		}
		n.db = d
		m.startNode(n)
		n.setIdx = len(m.sets) - 1
		meshHandOff(m, n.setC, m.gsOf(m.curSet()))
		m.log.Add("n%d restarted", n.idx)
		return
	}
	if !n.up {
		m.stats.Fault("delivery-to-down-node")
		return
	}
	switch e.kind {
	case evObs:
		select {
		case n.obsvC <- e.obs:
			m.nDelivered++
		default:
			m.stats.Fault("observation-queue-full")
		}
		m.log.Add("deliver obs n%d->n%d %s", e.src, e.dst, shortHex(e.obs.Hash))
	case evVAA:
		select {
		case n.signedInC <- e.sv:
			m.nDelivered++
		default:
			m.stats.Fault("vaa-queue-full")
		}
		m.log.Add("deliver vaa n%d->n%d %s", e.src, e.dst, shortHex(crypto256(e.sv.Vaa)))
	case evSet:
		s := m.sets[e.msg]
		if int(e.msg) > n.setIdx {
			n.setIdx = int(e.msg)
			meshHandOff(m, n.setC, m.gsOf(s))
			m.log.Add("n%d set #%d", n.idx, s.index)
		}
	case evChain:
		d := decodeMsg(e.msg)
		hx := hex.EncodeToString(d.digest())
		n.observed[hx], n.everObs[hx] = true, true
		meshHandOff(m, n.lockC, d.publication())
		m.log.Add("n%d chain %s %s", n.idx, d.idKey(), e.note)
	case evReq:
		key := fmt.Sprintf("%d/%x", e.req.ChainId, e.req.TxHash)
		d, ok := m.byTx[key]
		if !ok {
			return
		}
		// the dispatcher forwards a (chain, tx) pair at most once per eleven minutes
		if last, seen := n.reobsLast[key]; seen && m.now()-last < 11*time.Minute {
			m.stats.Probe("mesh-reobservation-suppressed")
			return
		}
		n.reobsLast[key] = m.now()
		delay := time.Second + time.Duration(mh(m.seed, 9, uint64(n.idx), hashBytes(e.req.TxHash), uint64(m.now()))%2000)*time.Millisecond
		m.push(&meshEvent{at: m.now() + delay, tie: mh(m.seed, 10, uint64(n.idx), hashBytes(e.req.TxHash)), kind: evChain, dst: n.idx, msg: d.m, note: "re-observed"})
		m.nReobs++
	}
}

func crypto256(b []byte) []byte { return ref.Keccak256(b) }

// runUntil processes events up to simulated time t. Between events the nodes' cleanup tickers fire;
// what they send is collected at least every five simulated seconds.
func (m *mesh) runUntil(t time.Duration) {
	for !m.dead {
		next := t
		i := m.peek(t)
		if i >= 0 {
			next = m.q[i].at
		}
		if m.now() < next {
			hop := next - m.now()
			if hop > 5*time.Second {
				hop = 5 * time.Second
			}
			time.Sleep(hop)
			synctest.Wait()
			m.collect() // may schedule something earlier than what we were heading for
			continue
		}
		if i < 0 {
			return
		}
		m.deliver(m.take(i))
		synctest.Wait()
		m.collect()
		m.log.Cut(fmt.Sprintf("t=%v", m.now().Round(time.Millisecond)))
	}
}

func (m *mesh) upMembers(s *meshSet) int {
	c := 0
	for _, n := range m.nodes {
		if n.up && containsInt(s.keys, n.key) {
			c++
		}
	}
	return c
}

// settle: all faults stop; within the time the retry schedule needs, every message somebody is still
// working on must be stored by every running member, provided a quorum of the set is running.
func (m *mesh) settle() {
	m.faultsOn = false
	for i := range m.group {
		m.group[i] = 0
	}
	// pending restarts complete
	var latest time.Duration
	for _, e := range m.q {
		if e.kind == evRestart || e.kind == evSet {
			if e.at > latest {
				latest = e.at
			}
		}
	}
	if latest > m.now() {
		m.runUntil(latest + time.Second)
	}
	m.healedAt = m.now()
	cur := m.curSet()
	type want struct {
		d msgDesc
		n *meshNode
	}
	var wants []want
	var hexes []string
	for hx := range m.msgs {
		hexes = append(hexes, hx)
	}
	sort.Strings(hexes)
	for _, hx := range hexes {
		d := m.msgs[hx]
		if m.emittedAt[hx] < m.lastSetAt {
			continue // aggregated across a guardian-set change: which set a node pins is its own business
		}
		for _, n := range m.nodes {
			// a running member that observed the message since it started and has no VAA of it is
			// still working on it: it keeps asking the network until it has one
			if n.up && n.member && containsInt(cur.keys, n.key) && n.observed[hx] && n.store[d.idKey()] == nil {
				wants = append(wants, want{d, n})
			}
		}
	}
	quorumUp := m.upMembers(cur) >= ref.Quorum(len(cur.keys))
	// three retry periods (5 min each, checked every 30 s): a peer's dispatcher may have forwarded the
	// same transaction just before the faults stopped and suppresses it for eleven minutes
	m.runUntil(m.now() + 18*time.Minute)
	if m.dead {
		return
	}
	for _, wn := range wants {
		if quorumUp && wn.n.store[wn.d.idKey()] == nil {
			m.violate("C02", "mesh:message-never-published", "18 minutes after the last fault node %d still has no VAA of %s, which it observed, although %d of the %d guardians of the set are running",
				wn.n.idx, wn.d.idKey(), m.upMembers(cur), len(cur.keys))
		}
	}
	if !quorumUp {
		m.stats.Probe("mesh-settle-without-quorum")
	} else if len(wants) > 0 {
		m.stats.Probe("mesh-settle-completed-pending")
	}
}

func execMesh(h procHarness, p *simkit.Program) *simkit.Result {
	res := &simkit.Result{Seed: p.Seed, Prop: p.Prop, Steps: len(p.Steps)}
	m := &mesh{prog: p, res: res, log: &simkit.Log{}, stats: simkit.NewStats(), seed: p.Seed ^ 0x6d657368, occ: map[string]int{},
		msgs: map[string]msgDesc{}, byTx: map[string]msgDesc{}, emittedAt: map[string]time.Duration{}}
	nn := int(p.C("mesh", 3))
	if nn < 2 {
		nn = 2
	}
	if nn > 7 {
		nn = 7
	}
	absent := int(p.C("absent", 0))
	outsider := p.C("outsider", 0) == 1 && nn > 2
	m.dropPm, m.dupPm = p.C("drop", 0), p.C("dup", 0)
	m.maxDelay = time.Duration(p.C("delay", 200)) * time.Millisecond
	m.faultsOn = true
	scratch := os.Getenv("VERIF_SCRATCH")
	if scratch == "" {
		scratch = os.TempDir()
	}
	base := filepath.Join(scratch, fmt.Sprintf("mesh-%d-%d", os.Getpid(), p.Seed))
	os.RemoveAll(base)
	defer os.RemoveAll(base)
	m.supCtx = supervisorContext()
	keyBase := int(p.C("keybase", 0)) % nKeys
	set0 := &meshSet{index: uint32(p.C("setindex", 0))}
	for i := 0; i < nn; i++ {
		n := &meshNode{idx: i, key: (keyBase + i) % nKeys, dir: filepath.Join(base, fmt.Sprint(i)), store: map[string][]byte{}, everObs: map[string]bool{}}
		n.member = !(outsider && i == nn-1)
		if n.member {
			set0.keys = append(set0.keys, n.key)
		}
		m.nodes = append(m.nodes, n)
	}
	for a := 0; a < absent; a++ {
		set0.keys = append(set0.keys, (keyBase+nn+a)%nKeys)
	}
	// the position of a key in the set matters to the signature indices: rotate deterministically
	rot := int(p.C("rot", 0)) % len(set0.keys)
	set0.keys = append(set0.keys[rot:], set0.keys[:rot]...)
	m.sets = []*meshSet{set0}
	m.group = make([]int, nn)

	body := func(t *testing.T) {
		m.start = time.Now()
		for _, n := range m.nodes {
			os.MkdirAll(n.dir, 0o755)
			d, err := openStore(n.dir)
			if err != nil {
				res.HarnessErr = "mesh db.Open: " + err.Error()
				return
			}
			n.db = d
			m.startNode(n)
			meshHandOff(m, n.setC, m.gsOf(set0))
		}
		for i, st := range p.Steps {
			if m.dead {
				break
			}
			m.step = i
			m.runStep(st)
			m.log.Cut(fmt.Sprintf("%d %s", i, st))
		}
		if !m.dead {
			m.step = len(p.Steps)
			m.settle()
			m.log.Cut("settle")
		}
		if m.panicked != nil {
			res.Violations = append(res.Violations, *m.panicked)
		}
		res.SimNs = int64(time.Since(m.start))
		for _, n := range m.nodes {
			if m.panicked == nil {
				m.stopNode(n)
			} else if n.up {
				n.cancel()
				close(n.stopDr)
			}
			if n.db != nil {
				n.db.Close()
			}
		}
	}
	func() {
		defer func() {
			if r := recover(); r != nil {
				msg := fmt.Sprint(r)
				if strings.Contains(msg, "deadlock") && (m.panicked != nil || len(res.Violations) > 0) {
					return
				}
				res.HarnessErr = "mesh bubble: " + msg
			}
		}()
		synctest.Test(h.t, body)
	}()
	m.stats.ProbeN("mesh-deliveries", int64(m.nDelivered))
	m.stats.ProbeN("mesh-published", int64(m.nPublished))
	m.stats.ProbeN("mesh-reobservations", int64(m.nReobs))
	m.stats.ProbeN("mesh-stored-from-peer", int64(m.nInboundStored))
	m.stats.Probe("mesh-runs")
	res.Faults, res.Probes = m.stats.Faults, m.stats.Probes
	res.Log, res.LogHash = m.log.Lines(), m.log.Hash()
	res.NonTrivial = m.nPublished > 0 && (m.nDropped > 0 || m.nDup > 0 || m.nReobs > 0)
	var keep []simkit.Violation
	for _, v := range res.Violations {
		if v.Prop == p.Prop {
			keep = append(keep, v)
		} else {
			res.Probes["other-property-violation:"+v.Prop+":"+v.Key]++
		}
	}
	res.Violations = keep
	return res
}

func (m *mesh) runStep(st simkit.Step) {
	switch st.Op {
	case "emit":
		d := decodeMsg(st.A)
		if d.isGov() {
			return
		}
		hx := hex.EncodeToString(d.digest())
		// one identifier, one body: a second body under the same id is a different experiment (procsim)
		for _, o := range m.msgs {
			if o.idKey() == d.idKey() && o.m != d.m {
				return
			}
		}
		m.msgs[hx] = d
		pub := d.publication()
		m.byTx[fmt.Sprintf("%d/%x", uint32(pub.EmitterChain), pub.TxHash.Bytes())] = d
		if _, ok := m.emittedAt[hx]; !ok {
			m.emittedAt[hx] = m.now()
		}
		spread := time.Duration(st.C) * time.Millisecond
		for _, n := range m.nodes {
			if st.B&(1<<uint(n.idx)) == 0 {
				continue
			}
			off := time.Duration(0)
			if spread > 0 {
				off = time.Duration(mh(m.seed, 3, uint64(n.idx), uint64(st.A), uint64(m.step)) % uint64(spread))
			}
			m.push(&meshEvent{at: m.now() + off, tie: mh(m.seed, 4, uint64(n.idx), uint64(st.A)), kind: evChain, dst: n.idx, msg: d.m, note: "observed"})
		}
	case "run":
		m.runUntil(m.now() + time.Duration(st.A)*time.Millisecond)
	case "net":
		m.dropPm, m.dupPm = st.A, st.B
		if st.C > 0 {
			m.maxDelay = time.Duration(st.C) * time.Millisecond
		}
		m.faultsOn = true
	case "part":
		for i := range m.group {
			m.group[i] = 0
			if st.A&(1<<uint(i)) != 0 {
				m.group[i] = 1
			}
		}
		m.stats.Fault("partition")
	case "heal":
		for i := range m.group {
			m.group[i] = 0
		}
		m.stats.Fault("partition-healed")
	case "crash":
		n := m.nodes[int(st.A)%len(m.nodes)]
		if !n.up {
			return
		}
		m.stopNode(n)
		n.db.Close()
		n.db = nil
		m.stats.Fault("node-crash")
		m.log.Add("n%d crashed", n.idx)
		m.push(&meshEvent{at: m.now() + time.Duration(st.B)*time.Millisecond, tie: uint64(n.idx), kind: evRestart, dst: n.idx})
	case "rotate":
		// a new guardian set: the running members stay, the number of absent guardians changes
		prev := m.curSet()
		s := &meshSet{index: prev.index + 1}
		for _, n := range m.nodes {
			if n.member {
				s.keys = append(s.keys, n.key)
			}
		}
		for a := 0; a < int(st.A)%4; a++ {
			s.keys = append(s.keys, (m.nodes[len(m.nodes)-1].key+1+a)%nKeys)
		}
		rot := int(st.B) % len(s.keys)
		s.keys = append(s.keys[rot:], s.keys[:rot]...)
		m.sets = append(m.sets, s)
		spread := time.Duration(st.C) * time.Millisecond
		for _, n := range m.nodes {
			off := time.Duration(0)
			if spread > 0 {
				off = time.Duration(mh(m.seed, 6, uint64(n.idx), uint64(s.index)) % uint64(spread))
			}
			m.push(&meshEvent{at: m.now() + off, tie: uint64(n.idx), kind: evSet, dst: n.idx, msg: int64(len(m.sets) - 1)})
			if m.now()+off > m.lastSetAt {
				m.lastSetAt = m.now() + off + time.Millisecond
			}
		}
		m.stats.Fault("guardian-set-rotation")
	}
}

// genMesh: a handful of messages seen by varying subsets of three to six nodes over a lossy,
// partitioned network, with crashes; faults stop at the end (settle is implicit).
func genMesh(g *genState) {
	r, p := g.r, g.p
	nn := 3 + r.Intn(4)
	p.Cfg["mesh"] = int64(nn)
	p.Cfg["keybase"] = int64(r.Intn(nKeys))
	p.Cfg["rot"] = int64(r.Intn(8))
	if r.P(0.3) {
		p.Cfg["absent"] = int64(1 + r.Intn(3))
	}
	if r.P(0.2) {
		p.Cfg["outsider"] = 1
	}
	if r.P(0.2) {
		p.Cfg["setindex"] = int64(r.Intn(5))
	}
	p.Cfg["drop"] = int64([]int{0, 50, 150, 300, 500}[r.Intn(5)])
	p.Cfg["dup"] = int64([]int{0, 50, 200}[r.Intn(3)])
	p.Cfg["delay"] = int64([]int{50, 200, 2000, 20000}[r.Intn(4)])
	all := int64(1)<<uint(nn) - 1
	nmsg := 1 + r.Intn(5)
	for k := 0; k < nmsg; k++ {
		m := encodeMsg(k, []int{0, 0, 1, 2, 3, 7}[r.Intn(6)], []int{0, 0, 2}[r.Intn(3)], r.Intn(2), r.Intn(4), 0)
		mask := all
		if r.P(0.4) {
			mask = int64(r.Intn(int(all))) + 1
		}
		g.add("emit", m, mask, int64([]int{0, 100, 3000, 40000}[r.Intn(4)]), 0, "")
		switch r.Intn(8) {
		case 0:
			g.add("part", int64(r.Intn(int(all))+1), 0, 0, 0, "")
		case 1:
			g.add("heal", 0, 0, 0, 0, "")
		case 2:
			g.add("crash", int64(r.Intn(nn)), int64([]int{100, 5000, 90000, 400000}[r.Intn(4)]), 0, 0, "")
		case 3:
			g.add("net", int64([]int{0, 100, 400, 900}[r.Intn(4)]), int64([]int{0, 100}[r.Intn(2)]), int64([]int{0, 100, 5000}[r.Intn(3)]), 0, "")
		case 4:
			if r.P(0.5) {
				g.add("rotate", int64(r.Intn(4)), int64(r.Intn(8)), int64([]int{0, 500, 20000}[r.Intn(3)]), 0, "")
			}
		}
		g.add("run", int64([]int{50, 500, 5000, 35000, 330000, 700000}[r.Intn(6)]), 0, 0, 0, "")
		if r.P(0.15) {
			// the same message is seen again by some nodes (a watcher restarting, a re-org replayed)
			g.add("emit", m, int64(r.Intn(int(all)))+1, 1000, 0, "")
		}
	}
}
