#!/usr/bin/env python3
"""Build-time seam for evmsim: Watcher.Run hard-codes ethRpc.DialContext(url), for which no
in-memory scheme exists. This generator writes a scratch copy of connector.go (from /repo's
current working tree) in which that one call goes through verifDialRPC (defined by the harness),
and prints the overlay mapping. /repo itself is not touched. Fails (exit 1 -> harness trouble)
if the call site is not found exactly once."""
import json, os, sys
repo, build = sys.argv[1], sys.argv[2]
src = os.path.join(repo, "node/pkg/ethereum/connector.go")
text = open(src).read()
needle = "ethRpc.DialContext(ctx, rawUrl)"
if text.count(needle) != 1:
    sys.stderr.write("evmsim overlay: expected exactly one %r in connector.go\n" % needle)
    sys.exit(1)
out = os.path.join(build, "evmsim_connector.go")
open(out, "w").write(text.replace(needle, "verifDialRPC(ctx, rawUrl)"))
mapping = {src: out}
# second seam: the pending-set mutex. sync.Mutex waits are not durable for testing/synctest, so the
# simulator could never let the log loop run into the header loop's critical section. In the scratch
# copy the mutex operations go through a channel-based lock supplied by the harness (same exclusion,
# but a blocked Lock is a durable wait), which makes that interleaving schedulable.
wsrc = os.path.join(repo, "node/pkg/ethereum/watcher.go")
wtext = open(wsrc).read()
nl, nu = wtext.count("w.pendingMu.Lock()"), wtext.count("w.pendingMu.Unlock()")
if nl < 1 or nl != nu:
    sys.stderr.write("evmsim overlay: unexpected pendingMu usage in watcher.go (%d Lock, %d Unlock)\n" % (nl, nu))
    sys.exit(1)
wout = os.path.join(build, "evmsim_watcher.go")
open(wout, "w").write(wtext.replace("w.pendingMu.Lock()", "verifMuLock(&w.pendingMu)").replace("w.pendingMu.Unlock()", "verifMuUnlock(&w.pendingMu)"))
mapping[wsrc] = wout
print(json.dumps(mapping))
