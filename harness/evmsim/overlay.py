#!/usr/bin/env python3
"""Build-time seam for evmsim: Watcher.Run hard-codes ethRpc.DialContext(url), for which no
in-memory scheme exists. This generator writes a scratch copy of connector.go (from /repo's
current working tree) in which that one call goes through verifDialRPC (defined by the harness),
and prints the overlay mapping. /repo itself is not touched. Fails (exit 1 -> harness trouble)
if the call site is not found exactly once."""
import json, os, sys
repo, build = sys.argv[1], sys.argv[2]
src = os.path.join(repo, "node/pkg/ethereum/connector.go")
text = open(src).read()
needle = "ethRpc.DialContext(ctx, rawUrl)"
if text.count(needle) != 1:
    sys.stderr.write("evmsim overlay: expected exactly one %r in connector.go\n" % needle)
    sys.exit(1)
out = os.path.join(build, "evmsim_connector.go")
open(out, "w").write(text.replace(needle, "verifDialRPC(ctx, rawUrl)"))
print(json.dumps({src: out}))
