//go:build verif

// evmsim (C10): the real EVM watcher (Watcher.Run, BlockPollConnector, EthereumConnector, the abi
// bindings, go-ethereum's rpc client and ethclient) under the real supervisor, against a
// simulated EVM JSON-RPC node served by a go-ethereum rpc.Server over an in-process pipe.
// Seam: one call site (ethRpc.DialContext) is redirected by a build-time overlay of a scratch
// copy of connector.go (see overlay.py); every RPC request is parked and released one at a time.
package ethereum

import (
	"context"
	"encoding/hex"
	"errors"
	"fmt"
	"math/big"
	"math/rand"
	"os"
	"sort"
	"strconv"
	"strings"
	"sync"
	"testing"
	"testing/synctest"
	"time"

	"github.com/alephium/wormhole-fork/node/pkg/common"
	ethAbiPkg "github.com/alephium/wormhole-fork/node/pkg/ethereum/abi"
	gossipv1 "github.com/alephium/wormhole-fork/node/pkg/proto/gossip/v1"
	"github.com/alephium/wormhole-fork/node/pkg/supervisor"
	"github.com/alephium/wormhole-fork/node/pkg/vaa"
	gethAbi "github.com/ethereum/go-ethereum/accounts/abi"
	ethCommon2 "github.com/ethereum/go-ethereum/common"
	"github.com/ethereum/go-ethereum/common/hexutil"
	"github.com/ethereum/go-ethereum/crypto"
	ethRpc2 "github.com/ethereum/go-ethereum/rpc"
	"go.uber.org/zap"

	"verif.local/simkit"
)

var (
	coreAddr    = ethCommon2.HexToAddress("0x00000000000000000000000000000000000c04e1")
	foreignAddr = ethCommon2.HexToAddress("0x00000000000000000000000000000000000f04e1")
	senderAddr  = ethCommon2.HexToAddress("0x000000000000000000000000000000000005e4d3")
	senderAddr2 = ethCommon2.HexToAddress("0x00000000000000000000000000000000000b0b02")
	msgTopic    = ethCommon2.HexToHash("0xcd7b525350dfac7e06deb9b3a8f19ceb75cf6cd2914cd0b2d7bf9d9a3d9babff")
	otherTopic  = crypto.Keccak256Hash([]byte("SomethingElse(address,uint16)"))
	parsedABI   gethAbi.ABI
)

func init() {
	a, err := gethAbi.JSON(strings.NewReader(ethAbiPkg.AbiABI))
	if err != nil {
		panic(err)
	}
	parsedABI = a
}

// verifMuLock / verifMuUnlock replace the pending-set mutex in the scratch copy of watcher.go:
// a one-slot channel per mutex, so that a blocked Lock is a durable wait for synctest.
var (
	muChans   = map[*sync.Mutex]chan struct{}{}
	muChansMu sync.Mutex
)

func muChan(m *sync.Mutex) chan struct{} {
	muChansMu.Lock()
	defer muChansMu.Unlock()
	c := muChans[m]
	if c == nil {
		c = make(chan struct{}, 1)
		muChans[m] = c
	}
	return c
}

func verifMuLock(m *sync.Mutex) {
	c := muChan(m)
	select {
	case c <- struct{}{}:
	default:
		if s := curSim; s != nil {
			s.mu.Lock()
			s.stats.Probe("lock-contention-on-pending-set")
			s.mu.Unlock()
		}
		c <- struct{}{}
	}
}

func verifMuUnlock(m *sync.Mutex) { <-muChan(m) }

// the active simulation (one per process at a time); verifDialRPC is called by the patched connector
var curSim *evmSim

func verifDialRPC(ctx context.Context, url string) (*ethRpc2.Client, error) {
	s := curSim
	if s == nil {
		return nil, errors.New("no simulation")
	}
	return s.dial()
}

// ---------------------------------------------------------------------------------------------
// chain model

type evmLog struct {
	addr     ethCommon2.Address
	topic0   ethCommon2.Hash
	sequence uint64
	level    uint8
	nonce    uint32
	target   uint16
	payload  []byte
	good     bool // core contract + published topic
	sender   ethCommon2.Address
	idx      int // position in the transaction
}

type evmTx struct {
	hash   ethCommon2.Hash
	status uint64
	logs   []*evmLog
	block  *evmBlock // block it is currently mined in (nil: dropped)
	// bookkeeping for the oracle
	deliveredInc       int       // watcher incarnation that received the log notification (0: none)
	deliveredBlock     *evmBlock // block named in that notification
	handoffs           map[string]int
	mutated            bool // orphaned / re-mined / status flipped at some point
	failFirstHead      uint64
	headAtDelivery     uint64 // newest head the poller had been served when the log notification went out
	lagEpochAtDelivery int
	abandonLegit       bool
	pendingSeen        map[string]bool // "log index/block hash" -> the watcher held this message in its pending set at some point
}

type evmBlock struct {
	number uint64
	hash   ethCommon2.Hash
	time   uint64
	txs    []*evmTx
}

type evmParked struct {
	kind  string
	key   string
	seq   int
	phase bool
	ch    chan int // fault code: -1 none
}

type evmSub struct {
	notifier *ethRpc2.Notifier
	id       ethRpc2.ID
	addrs    map[ethCommon2.Address]bool
	topics   map[ethCommon2.Hash]bool
	inc      int
}

// faultWindow: every request of `kind` released while the fake clock is inside [from, until] and
// whose key hashes into the window's selection fails with `code`. Which request meets a fault is
// thus a pure function of (seed, window serial, request key), never of the order in which the
// watcher's map iteration happens to issue requests.
type faultWindow struct {
	kind        string
	code        int
	serial      int
	from, until time.Duration
}

func (s *evmSim) faultFor(kind, key string) (int, bool) {
	now := s.now()
	for _, f := range s.faults {
		if f.kind == kind && now >= f.from && now <= f.until && simkit.Hash64(s.prog.Seed, "fault", strconv.Itoa(f.serial), key)%3 != 0 {
			return f.code, true
		}
	}
	return 0, false
}

type evmHandoff struct {
	pub  *common.MessagePublication
	path string
}

type evmSim struct {
	mu    sync.Mutex
	res   *simkit.Result
	log   *simkit.Log
	stats *simkit.Stats
	prog  *simkit.Program
	start time.Time
	step  int

	chain     []*evmBlock
	byHash    map[ethCommon2.Hash]*evmBlock
	finalized uint64
	txs       []*evmTx
	nBlocks   int
	useFinal  bool

	parked  []*evmParked
	seq     int
	epoch   uint64
	faults  []faultWindow // order-independent fault decisions (rule D3)
	nFaults int
	reqs    map[string]int
	servers []*ethRpc2.Server
	subs    []*evmSub
	inc     int

	maxHeadServed     uint64
	mutexHeldUntil    time.Duration
	raceLogs          []int
	watcher           *Watcher
	holdGate          chan struct{} // non-nil while the consumer of hand-offs does not read
	holdKick          chan struct{}
	holdUsed          bool
	lagEpoch          int
	stallUntil        time.Duration
	headServedInPhase uint64
	reobsPhase        bool
	aborting          bool
	handoffs          []evmHandoff
	restarts          int
	gsIndex           uint32
}

func (s *evmSim) now() time.Duration { return time.Since(s.start) }

func (s *evmSim) violate(key, format string, a ...interface{}) {
	for _, v := range s.res.Violations {
		if v.Key == key {
			return
		}
	}
	s.res.Violations = append(s.res.Violations, simkit.Violation{Prop: "C10", Key: key, Step: s.step, Detail: fmt.Sprintf(format, a...)})
	s.log.Add("VIOLATION %s", key)
}

func (s *evmSim) head() uint64 { return uint64(len(s.chain) - 1) }

func (s *evmSim) newBlock(num uint64) *evmBlock {
	s.nBlocks++
	b := &evmBlock{number: num, hash: crypto.Keccak256Hash([]byte("evmblock"), []byte(strconv.Itoa(s.nBlocks))), time: 1_700_000_000 + uint64(s.nBlocks)}
	s.byHash[b.hash] = b
	return b
}

func (s *evmSim) mine(n int) {
	for i := 0; i < n; i++ {
		s.chain = append(s.chain, s.newBlock(uint64(len(s.chain))))
	}
}

func (s *evmSim) canonical(b *evmBlock) bool {
	return b != nil && b.number < uint64(len(s.chain)) && s.chain[b.number] == b
}

func (l *evmLog) pack(tx *evmTx, b *evmBlock, idx int, removed bool) map[string]interface{} {
	data, err := parsedABI.Events["LogMessagePublished"].Inputs.NonIndexed().Pack(l.target, l.sequence, l.nonce, l.payload, l.level)
	if err != nil {
		panic(err)
	}
	return map[string]interface{}{
		"address": l.addr, "topics": []ethCommon2.Hash{l.topic0, ethCommon2.BytesToHash(l.sender.Bytes())}, "data": hexutil.Bytes(data),
		"blockNumber": hexutil.Uint64(b.number), "transactionHash": tx.hash, "transactionIndex": hexutil.Uint(0), "blockHash": b.hash,
		"logIndex": hexutil.Uint(idx), "removed": removed,
	}
}

// notify pushes the logs of tx (as mined in b) to every live subscription whose filter matches.
func (s *evmSim) notify(tx *evmTx, b *evmBlock, removed bool) {
	for _, sub := range s.subs {
		if sub.inc != s.inc {
			continue
		}
		for i, l := range tx.logs {
			if !sub.addrs[l.addr] || !sub.topics[l.topic0] {
				continue
			}
			_ = sub.notifier.Notify(sub.id, l.pack(tx, b, i, removed))
			if !removed {
				tx.deliveredInc, tx.deliveredBlock = sub.inc, b
				tx.headAtDelivery = s.maxHeadServed
				tx.lagEpochAtDelivery = s.lagEpoch
			}
			s.stats.Probe("log-notifications")
		}
	}
}

// ---------------------------------------------------------------------------------------------
// the node's JSON-RPC face: every method parks until the simulator releases it

type ethService struct{ s *evmSim }

var errInjected = errors.New("injected rpc error")

func (s *evmSim) park(kind, key string) error {
	p := &evmParked{kind: kind, key: key, ch: make(chan int, 1)}
	s.mu.Lock()
	s.seq++
	p.seq = s.seq
	p.phase = s.reobsPhase
	s.parked = append(s.parked, p)
	s.mu.Unlock()
	switch <-p.ch {
	case 0:
		return errInjected
	case 2:
		return errors.New("header not found") // geth's answer from a lagging / load-balanced backend: transient
	case 1:
		// stall far beyond every caller's deadline
		time.Sleep(40 * time.Second)
		return errInjected
	case 3:
		// slow, but answered: the caller (Run, subscribing at start-up without a deadline) is held up
		// for a dozen poll intervals while the poller it has just created is already at work
		time.Sleep(12 * time.Duration(s.prog.C("poll_ms", 1000)) * time.Millisecond)
	}
	return nil
}

func (e ethService) GetBlockByNumber(ctx context.Context, num string, full bool) (map[string]interface{}, error) {
	s := e.s
	if err := s.park("blockByNumber", num); err != nil {
		return nil, err
	}
	s.mu.Lock()
	defer s.mu.Unlock()
	var n uint64
	switch num {
	case "latest":
		n = s.head()
	case "finalized":
		n = s.finalized
	case "safe":
		n = s.finalized
	default:
		v, err := hexutil.DecodeUint64(num)
		if err != nil || v > s.head() {
			return nil, nil
		}
		n = v
	}
	if (num == "latest" && !s.useFinal) || num == "finalized" || num == "safe" {
		if n > s.maxHeadServed {
			s.maxHeadServed = n
		}
		if s.reobsPhase {
			s.headServedInPhase = n
		}
	}
	b := s.chain[n]
	return map[string]interface{}{"number": (*hexutil.Big)(new(big.Int).SetUint64(b.number)), "hash": b.hash}, nil
}

// BlockNumber serves eth_blockNumber (the unfinalized tip). On chains read at finalized height the
// tip is not "the chain head the watcher has seen" in the sense of the property.
func (e ethService) BlockNumber(ctx context.Context) (hexutil.Uint64, error) {
	s := e.s
	if err := s.park("blockByNumber", "tip"); err != nil {
		return 0, err
	}
	s.mu.Lock()
	defer s.mu.Unlock()
	if !s.useFinal {
		if s.head() > s.maxHeadServed {
			s.maxHeadServed = s.head()
		}
		if s.reobsPhase {
			s.headServedInPhase = s.head()
		}
	}
	return hexutil.Uint64(s.head()), nil
}

func (e ethService) GetBlockByHash(ctx context.Context, hash ethCommon2.Hash, full bool) (map[string]interface{}, error) {
	s := e.s
	if err := s.park("blockByHash", hash.Hex()); err != nil {
		return nil, err
	}
	s.mu.Lock()
	defer s.mu.Unlock()
	b := s.byHash[hash]
	if b == nil {
		return nil, nil
	}
	zeroH := ethCommon2.Hash{}
	return map[string]interface{}{
		"parentHash": zeroH, "sha3Uncles": zeroH, "miner": ethCommon2.Address{}, "stateRoot": zeroH, "transactionsRoot": zeroH, "receiptsRoot": zeroH,
		"logsBloom": hexutil.Bytes(make([]byte, 256)), "difficulty": (*hexutil.Big)(big.NewInt(1)), "number": (*hexutil.Big)(new(big.Int).SetUint64(b.number)),
		"gasLimit": hexutil.Uint64(30000000), "gasUsed": hexutil.Uint64(0), "timestamp": hexutil.Uint64(b.time), "extraData": hexutil.Bytes{},
		"mixHash": zeroH, "nonce": "0x0000000000000000", "hash": b.hash, "transactions": []interface{}{}, "uncles": []interface{}{},
	}, nil
}

func (e ethService) GetTransactionReceipt(ctx context.Context, hash ethCommon2.Hash) (map[string]interface{}, error) {
	s := e.s
	if err := s.park("receipt", hash.Hex()); err != nil {
		return nil, err
	}
	s.mu.Lock()
	defer s.mu.Unlock()
	var tx *evmTx
	for _, t := range s.txs {
		if t.hash == hash {
			tx = t
		}
	}
	if tx == nil || tx.block == nil || !s.canonical(tx.block) {
		return nil, nil // "not found"
	}
	logs := []interface{}{}
	for i, l := range tx.logs {
		logs = append(logs, l.pack(tx, tx.block, i, false))
	}
	return map[string]interface{}{
		"status": hexutil.Uint64(tx.status), "cumulativeGasUsed": hexutil.Uint64(21000), "logsBloom": hexutil.Bytes(make([]byte, 256)), "logs": logs,
		"transactionHash": tx.hash, "contractAddress": ethCommon2.Address{}, "gasUsed": hexutil.Uint64(21000), "blockHash": tx.block.hash,
		"blockNumber": (*hexutil.Big)(new(big.Int).SetUint64(tx.block.number)), "transactionIndex": hexutil.Uint(0), "type": hexutil.Uint64(0),
	}, nil
}

func (e ethService) Call(ctx context.Context, args map[string]interface{}, blockNr string) (hexutil.Bytes, error) {
	s := e.s
	data, _ := args["data"].(string)
	if data == "" {
		data, _ = args["input"].(string)
	}
	if err := s.park("call", data); err != nil {
		return nil, err
	}
	s.mu.Lock()
	defer s.mu.Unlock()
	raw, _ := hexutil.Decode(data)
	if len(raw) < 4 {
		return nil, errors.New("execution reverted")
	}
	m, err := parsedABI.MethodById(raw[:4])
	if err != nil {
		return nil, errors.New("execution reverted")
	}
	switch m.Name {
	case "getCurrentGuardianSetIndex":
		out, _ := m.Outputs.Pack(s.gsIndex)
		return out, nil
	case "getGuardianSet":
		gs := ethAbiPkg.StructsGuardianSet{Keys: []ethCommon2.Address{senderAddr}, ExpirationTime: 0}
		out, err := m.Outputs.Pack(gs)
		if err != nil {
			return nil, err
		}
		return out, nil
	}
	return nil, errors.New("execution reverted")
}

func (e ethService) Logs(ctx context.Context, crit map[string]interface{}) (*ethRpc2.Subscription, error) {
	s := e.s
	notifier, ok := ethRpc2.NotifierFromContext(ctx)
	if !ok {
		return nil, ethRpc2.ErrNotificationsUnsupported
	}
	if err := s.park("subscribe", "logs"); err != nil {
		return nil, err
	}
	sub := notifier.CreateSubscription()
	es := &evmSub{notifier: notifier, id: sub.ID, addrs: map[ethCommon2.Address]bool{}, topics: map[ethCommon2.Hash]bool{}}
	switch a := crit["address"].(type) {
	case string:
		es.addrs[ethCommon2.HexToAddress(a)] = true
	case []interface{}:
		for _, x := range a {
			if str, ok := x.(string); ok {
				es.addrs[ethCommon2.HexToAddress(str)] = true
			}
		}
	}
	if ts, ok := crit["topics"].([]interface{}); ok && len(ts) > 0 {
		switch t0 := ts[0].(type) {
		case string:
			es.topics[ethCommon2.HexToHash(t0)] = true
		case []interface{}:
			for _, x := range t0 {
				if str, ok := x.(string); ok {
					es.topics[ethCommon2.HexToHash(str)] = true
				}
			}
		}
	}
	s.mu.Lock()
	es.inc = s.inc
	s.subs = append(s.subs, es)
	s.mu.Unlock()
	return sub, nil
}

func (s *evmSim) dial() (*ethRpc2.Client, error) {
	srv := ethRpc2.NewServer()
	if err := srv.RegisterName("eth", ethService{s}); err != nil {
		return nil, err
	}
	s.mu.Lock()
	s.servers = append(s.servers, srv)
	s.inc++
	s.mu.Unlock()
	return ethRpc2.DialInProc(srv), nil
}

// ---------------------------------------------------------------------------------------------
// scheduling

func (s *evmSim) pick(phaseOnly bool) *evmParked {
	s.mu.Lock()
	defer s.mu.Unlock()
	var cand []*evmParked
	for _, p := range s.parked {
		if phaseOnly && !p.phase {
			continue
		}
		cand = append(cand, p)
	}
	if len(cand) == 0 {
		return nil
	}
	// The header loop holds the pending-set lock across its receipt lookups. The lock is a durable
	// channel lock in this build (see verifMuLock), so either order is schedulable: in most epochs the
	// receipts are served first, in the others whatever the seed picks - including letting the log
	// loop run into the critical section.
	var rc []*evmParked
	for _, p := range cand {
		if p.kind == "receipt" && !p.phase {
			rc = append(rc, p)
		}
	}
	if len(rc) > 0 && !phaseOnly && simkit.Hash64(s.prog.Seed, "d5", strconv.FormatUint(s.epoch, 10))%3 != 0 {
		cand = rc
	}
	sort.Slice(cand, func(i, j int) bool {
		if cand[i].kind != cand[j].kind {
			return cand[i].kind < cand[j].kind
		}
		if cand[i].key != cand[j].key {
			return cand[i].key < cand[j].key
		}
		return cand[i].seq < cand[j].seq
	})
	s.epoch++
	p := cand[int(simkit.Hash64(s.prog.Seed, "pick", strconv.FormatUint(s.epoch, 10))%uint64(len(cand)))]
	for i, q := range s.parked {
		if q == p {
			s.parked = append(s.parked[:i], s.parked[i+1:]...)
			break
		}
	}
	return p
}

func (s *evmSim) release(p *evmParked) {
	s.mu.Lock()
	code := -1
	s.reqs[p.kind]++
	if p.kind == "blockByNumber" && !p.phase {
		// a head is served while the header loop may still be in the middle of a pass (a receipt
		// lookup of the polling path is parked or stalled, or the consumer of hand-offs is busy): from
		// here on the loop may be working on an older head than the newest one served
		busy := s.holdGate != nil || s.now() < s.stallUntil
		for _, q := range s.parked {
			if q.kind == "receipt" && !q.phase {
				busy = true
			}
		}
		if busy {
			s.lagEpoch++
		}
	}
	if s.aborting {
		code = 0
	} else if c, hit := s.faultFor(p.kind, p.key); hit {
		code = c
		if code == 3 && p.kind != "subscribe" {
			code = 0
		}
		s.stats.Fault([]string{"rpc-error:", "rpc-stall:", "rpc-error-header-not-found:", "rpc-slow:"}[code] + p.kind)
		if code == 1 && p.kind == "receipt" && !p.phase {
			s.stallUntil = s.now() + 6*time.Second // the caller gives up after five
		}
		if p.kind == "receipt" && !p.phase {
			// "abandoned only after the node has failed to confirm it for the whole abandonment window":
			// remember when every lookup of a transaction failed from its first attempt until a head
			// at least 60 blocks further on
			for _, tx := range s.txs {
				if tx.hash.Hex() == p.key {
					// The window runs from the head the header loop is working on when a lookup first fails.
					// Normally that is the newest head served. But the loop may lag behind the poller (a
					// stalled lookup or a busy consumer holds it up while newer heads are fetched): if that
					// can have happened since the log was delivered, the head is only known to lie between
					// the head served at delivery and the newest one, and the lower end is taken.
					if tx.failFirstHead == 0 {
						tx.failFirstHead = s.maxHeadServed + 1
						if tx.lagEpochAtDelivery != s.lagEpoch {
							tx.failFirstHead = tx.headAtDelivery + 1
							s.stats.Probe("abandonment-window-judged-with-lag-allowance")
						}
					} else if s.maxHeadServed+1 >= tx.failFirstHead+60 {
						tx.abandonLegit = true
					}
				}
			}
		}
	} else if p.kind == "receipt" && !p.phase {
		for _, tx := range s.txs {
			if tx.hash.Hex() == p.key {
				tx.failFirstHead = 0
			}
		}
	}
	s.mu.Unlock()
	p.ch <- code
}

func (s *evmSim) pump(until time.Duration) {
	guard := 0
	for {
		synctest.Wait()
		s.fireRaceLog()
		if p := s.pick(false); p != nil {
			s.release(p)
			guard++
			if guard > 100000 {
				s.res.HarnessErr = "pump: action cap reached"
				s.aborting = true
				return
			}
			continue
		}
		rem := until - s.now()
		if rem <= 0 {
			return
		}
		st := 250 * time.Millisecond
		if rem < st {
			st = rem
		}
		time.Sleep(st)
	}
}

// fireRaceLog: an armed log is emitted at the instant the header loop sits inside its critical
// section (a receipt lookup of the polling path is parked), so that the log loop can run into it.
func (s *evmSim) fireRaceLog() {
	s.mu.Lock()
	if len(s.raceLogs) == 0 {
		s.mu.Unlock()
		return
	}
	inCS := false
	for _, p := range s.parked {
		if p.kind == "receipt" && !p.phase {
			inCS = true
		}
	}
	if !inCS {
		s.mu.Unlock()
		return
	}
	lv := s.raceLogs[0]
	s.raceLogs = s.raceLogs[1:]
	tx := s.addTx(0, lv, 7)
	b := s.newBlock(uint64(len(s.chain)))
	s.chain = append(s.chain, b)
	b.txs = append(b.txs, tx)
	tx.block = b
	s.notify(tx, b, false)
	s.stats.Fault("log-during-header-processing")
	s.mu.Unlock()
	synctest.Wait()
}

// ---------------------------------------------------------------------------------------------
// oracle at hand-off

func (s *evmSim) onHandoff(pub *common.MessagePublication) {
	s.mu.Lock()
	defer s.mu.Unlock()
	path := "poll"
	if s.reobsPhase {
		path = "reobs"
	}
	s.handoffs = append(s.handoffs, evmHandoff{pub, path})
	var tx *evmTx
	for _, t := range s.txs {
		if t.hash == pub.TxHash {
			tx = t
		}
	}
	pfx := ""
	if path == "reobs" {
		pfx = "reobs:"
	}
	if tx == nil {
		s.violate(pfx+"forwarded-unknown-transaction", "message for a transaction that never existed")
		return
	}
	var lg *evmLog
	for _, l := range tx.logs {
		if l.sequence == pub.Sequence && l.nonce == pub.Nonce && string(l.payload) == string(pub.Payload) && uint16(pub.TargetChain) == l.target && pub.ConsistencyLevel == l.level &&
			pub.EmitterAddress == PadAddress(l.sender) {
			if lg == nil || l.good {
				lg = l
			}
		}
	}
	if lg == nil {
		s.violate(pfx+"forwarded-message-matches-no-log", "message seq=%d equals no log of transaction %s", pub.Sequence, tx.hash.Hex()[:10])
		return
	}
	if lg.addr != coreAddr {
		s.violate(pfx+"forwarded-foreign-contract-log", "log seq=%d was emitted by %s, not by the core contract", lg.sequence, lg.addr.Hex()[:10])
		return
	}
	if lg.topic0 != msgTopic {
		s.violate(pfx+"forwarded-wrong-topic-log", "log seq=%d does not carry the message-published topic", lg.sequence)
		return
	}
	if tx.status != 1 {
		s.violate(pfx+"forwarded-failed-transaction", "transaction %s has status %d", tx.hash.Hex()[:10], tx.status)
		return
	}
	// the block the message claims (by timestamp) must be the block the receipt points to now
	var claimed *evmBlock
	for _, b := range s.byHash {
		if int64(b.time) == pub.Timestamp.Unix() {
			claimed = b
		}
	}
	if tx.block == nil || !s.canonical(tx.block) {
		s.violate(pfx+"forwarded-orphaned-transaction", "transaction %s is not in any canonical block at hand-off", tx.hash.Hex()[:10])
		return
	}
	if claimed != tx.block {
		s.violate(pfx+"forwarded-after-receipt-moved", "message carries the time of block %v but the receipt points to block %d now", claimed, tx.block.number)
		return
	}
	required := uint64(0)
	if !s.useFinal {
		required = uint64(lg.level)
	}
	seen := s.maxHeadServed
	if path == "reobs" {
		seen = s.headServedInPhase
	}
	if seen < tx.block.number+required {
		s.violate(pfx+"forwarded-before-required-depth", "log in block %d needs %d confirmations, the watcher has only seen head %d", tx.block.number, required, seen)
		return
	}
	// exactly once per (log, block it is mined in, watcher incarnation): a transaction that is
	// re-mined after a reorg deeper than its confirmation depth is a new observation
	k := fmt.Sprintf("%s/%d/%s/inc%d", path, lg.idx, tx.block.hash.Hex(), s.inc)
	tx.handoffs[k]++
	tx.handoffs[fmt.Sprintf("%s/%d/%s", path, lg.idx, tx.block.hash.Hex())]++
	if path == "poll" && tx.handoffs[k] > 1 {
		s.violate("forwarded-twice", "log seq=%d in block %d handed over %d times by one watcher incarnation", lg.sequence, tx.block.number, tx.handoffs[k])
	}
	s.stats.Probe("handoff-ok-" + path)
}

// ---------------------------------------------------------------------------------------------
// harness

type evmHarness struct{ t *testing.T }

func (evmHarness) Name() string { return "evmsim" }

func (h evmHarness) Exec(p *simkit.Program) *simkit.Result {
	res := &simkit.Result{Seed: p.Seed, Prop: p.Prop, Steps: len(p.Steps)}
	s := &evmSim{res: res, log: &simkit.Log{}, stats: simkit.NewStats(), prog: p, byHash: map[ethCommon2.Hash]*evmBlock{}, reqs: map[string]int{}}
	s.useFinal = p.C("finalized", 0) == 1
	curSim = s
	muChansMu.Lock()
	muChans = map[*sync.Mutex]chan struct{}{}
	muChansMu.Unlock()
	defer func() { curSim = nil }()
	rand.Seed(int64(p.Seed)) // supervisor back-off jitter draws from the global source
	finished := false
	body := func(t *testing.T) {
		s.start = time.Now()
		s.mine(5)
		msgC := make(chan *common.MessagePublication)
		obsvReqC := make(chan *gossipv1.ObservationRequest, 25)
		poll := uint(p.C("poll_ms", 1000))
		chain := vaa.ChainIDBSC
		if s.useFinal {
			chain = vaa.ChainIDEthereum
		}
		w := NewEthWatcher("sim://evm", coreAddr, "evmsim", "evmsim", chain, msgC, nil, obsvReqC, false, &poll, !s.useFinal)
		s.watcher = w
		stopDrain := make(chan struct{})
		s.holdKick = make(chan struct{}, 1) // (made inside the bubble: a wait on it must count as durable)
		go func() {                         // plays the signing pipeline, which may be busy for a while ("hold")
			for {
				s.mu.Lock()
				g := s.holdGate
				s.mu.Unlock()
				if g != nil {
					select {
					case <-g:
					case <-stopDrain:
						return
					}
					continue
				}
				select {
				case m := <-msgC:
					s.onHandoff(m)
				case <-s.holdKick:
				case <-stopDrain:
					return
				}
			}
		}()
		ctx, cancel := context.WithCancel(context.Background())
		lg := zap.NewNop()
		if os.Getenv("VERIF_DEBUG") == "1" {
			lg, _ = zap.NewDevelopment()
		}
		supervisor.New(ctx, lg, func(ctx context.Context) error {
			s.mu.Lock()
			s.restarts++
			s.mu.Unlock()
			return w.Run(ctx)
		})
		s.pump(s.now() + 2*time.Second)
		for i, st := range p.Steps {
			s.step = i
			if s.aborting {
				break
			}
			s.runStep(st, obsvReqC)
			synctest.Wait() // the log line below must not race with the goroutines the step woke up
			s.notePending()
			s.mu.Lock()
			parked, handed := strconv.Itoa(len(s.parked)), strconv.Itoa(len(s.handoffs))
			if s.holdUsed {
				parked = "-"
			}
			if s.holdUsed || s.stallRecently() {
				// a stalled receipt lookup parks the header loop in the middle of its walk over the
				// pending set: which messages it got to before depends on Go's map order (rule D3)
				handed = "-"
			}
			s.log.Add("head=%d fin=%d inc=%d handoffs=%s seen=%d parked=%s polls=%s", s.head(), s.finalized, s.inc, handed, s.maxHeadServed, parked, s.pollsForLog())
			s.mu.Unlock()
			s.log.Cut(fmt.Sprintf("%d %s t=%v", i, st, s.now()))
		}
		if !s.aborting {
			s.settleAndCheck()
		}
		res.SimNs = int64(s.now())
		s.mu.Lock()
		// the per-transaction outcome is part of the canonical log: a run whose verdict could depend on
		// Go's map order shows up in the determinism self-test
		for i, tx := range s.txs {
			var ks []string
			for k, v := range tx.handoffs {
				ks = append(ks, fmt.Sprintf("%s=%d", k[:12], v))
			}
			sort.Strings(ks)
			// (the allowance to abandon a message is only read for a message that was not handed over; when
			// the failed lookup and the head that completes the window fall on one instant, whether it was
			// granted depends on which request arrived first - a detail of no consequence once handed over)
			ab := "-"
			if len(ks) == 0 {
				ab = strconv.FormatBool(tx.abandonLegit)
			}
			s.log.Add("tx %03d status=%d inblock=%v deliveredInc=%d abandon=%s handoffs=%v", i, tx.status, tx.block != nil, tx.deliveredInc, ab, ks)
		}
		s.log.Cut("outcome")
		s.aborting = true
		s.mu.Unlock()
		cancel()
		for k := 0; k < 300; k++ {
			synctest.Wait()
			pr := s.pick(false)
			if pr == nil {
				break
			}
			s.release(pr)
		}
		for _, srv := range s.servers {
			srv.Stop()
		}
		time.Sleep(50 * time.Second) // let stalled handlers and back-off sleeps run out
		synctest.Wait()
		close(stopDrain)
		finished = true
	}
	func() {
		defer func() {
			if r := recover(); r != nil {
				if strings.Contains(fmt.Sprint(r), "deadlock") && finished {
					return
				}
				res.HarnessErr = "bubble: " + fmt.Sprint(r)
			}
		}()
		synctest.Test(h.t, body)
	}()
	for k, v := range s.reqs {
		s.stats.ProbeN("requests-"+k, int64(v))
	}
	s.stats.ProbeN("handoffs", int64(len(s.handoffs)))
	s.stats.ProbeN("watcher-starts", int64(s.restarts))
	res.Faults, res.Probes = s.stats.Faults, s.stats.Probes
	res.Log, res.LogHash = s.log.Lines(), s.log.Hash()
	res.NonTrivial = len(s.handoffs) > 0 && len(s.stats.Faults) > 0
	return res
}

func (s *evmSim) addTx(kind, level, variant int) *evmTx {
	tx := &evmTx{hash: crypto.Keccak256Hash([]byte("evmtx"), []byte(strconv.Itoa(len(s.txs)))), status: 1, handoffs: map[string]int{}, pendingSeen: map[string]bool{}}
	seq := uint64(len(s.txs))
	mk := func(addr ethCommon2.Address, topic ethCommon2.Hash, sq uint64) *evmLog {
		pay := make([]byte, 20+variant%40)
		for i := range pay {
			pay[i] = byte(i + int(sq))
		}
		return &evmLog{addr: addr, topic0: topic, sequence: sq, level: uint8(level), nonce: uint32(7000 + sq), target: 255, payload: pay, good: addr == coreAddr && topic == msgTopic, sender: senderAddr}
	}
	switch kind {
	case 0:
		tx.logs = append(tx.logs, mk(coreAddr, msgTopic, seq))
	case 1:
		tx.logs = append(tx.logs, mk(foreignAddr, msgTopic, seq))
		s.stats.Fault("foreign-contract-log")
	case 2:
		tx.logs = append(tx.logs, mk(coreAddr, otherTopic, seq))
		s.stats.Fault("wrong-topic-log")
	case 3:
		tx.logs = append(tx.logs, mk(coreAddr, msgTopic, seq))
		tx.status = 0
		s.stats.Fault("failed-transaction-with-log")
	case 4:
		tx.logs = append(tx.logs, mk(foreignAddr, msgTopic, seq+500), mk(coreAddr, msgTopic, seq), mk(coreAddr, otherTopic, seq+900))
		s.stats.Fault("mixed-logs-in-one-transaction")
	case 5:
		// two emitters publish through the core contract in one transaction; sequences count per
		// emitter, so both messages may carry the same number
		a, b := mk(coreAddr, msgTopic, seq), mk(coreAddr, msgTopic, seq)
		b.sender = senderAddr2
		b.payload[0] ^= 0xff
		tx.logs = append(tx.logs, a, b)
		s.stats.Fault("two-emitters-same-sequence-in-one-transaction")
	}
	for i, l := range tx.logs {
		l.idx = i
	}
	if kind == 6 {
		// one transaction publishes two messages with different consistency levels
		a, b := mk(coreAddr, msgTopic, seq), mk(coreAddr, msgTopic, seq+700)
		b.level = uint8((level + 3 + variant%7) % 64)
		b.idx = 1
		tx.logs = append(tx.logs, a, b)
		s.stats.Fault("two-levels-in-one-transaction")
	}
	s.txs = append(s.txs, tx)
	return tx
}

func (s *evmSim) runStep(st simkit.Step, obsvReqC chan *gossipv1.ObservationRequest) {
	switch st.Op {
	case "log":
		s.mu.Lock()
		tx := s.addTx(int(st.A)%7, int(st.B)%64, int(st.C))
		b := s.newBlock(uint64(len(s.chain)))
		s.chain = append(s.chain, b)
		b.txs = append(b.txs, tx)
		tx.block = b
		s.notify(tx, b, false)
		s.mu.Unlock()
	case "head":
		s.mu.Lock()
		n := int(st.A)
		if n < 0 {
			n = 0
		}
		if n > 400 {
			n = 400
		}
		s.mine(n)
		s.finalized += uint64(st.B)
		if s.finalized > s.head() {
			s.finalized = s.head()
		}
		if n > 60 || st.B > 60 {
			s.stats.Fault("head-jump-over-60")
		}
		s.mu.Unlock()
	case "adv":
		d := time.Duration(st.A) * time.Millisecond
		if d <= 0 {
			d = time.Millisecond
		}
		s.pump(s.now() + d)
	case "reorg":
		s.reorg(int(st.A), int(st.B)%4)
	case "fault":
		kinds := []string{"blockByNumber", "blockByHash", "receipt", "call", "subscribe"}
		k := kinds[int(st.A)%len(kinds)]
		s.mu.Lock()
		s.nFaults++
		poll := time.Duration(s.prog.C("poll_ms", 1000)) * time.Millisecond
		s.faults = append(s.faults, faultWindow{kind: k, code: int(st.B) % 4, serial: s.nFaults, from: s.now(), until: s.now() + time.Duration(1+st.C%3)*2*poll})
		s.mu.Unlock()
	case "racelog":
		s.mu.Lock()
		s.raceLogs = append(s.raceLogs, int(st.B)%64)
		s.mu.Unlock()
	case "hold":
		// the signing pipeline stops (A=1) / resumes (A=0) taking messages from the watcher
		s.mu.Lock()
		if st.A == 1 && s.holdGate == nil && len(s.watcher.pending) > 1 {
			// with several messages due in one pass, Go's map order decides which one the watcher
			// parks on: the scenario is only played with at most one pending message (rule D3)
			s.mu.Unlock()
			s.log.Add("hold skipped: %d messages pending", len(s.watcher.pending))
			break
		}
		if st.A == 1 && s.holdGate == nil {
			s.holdUsed = true
			s.holdGate = make(chan struct{})
			s.stats.Fault("consumer-busy")
			s.mu.Unlock()
			select {
			case s.holdKick <- struct{}{}:
			default:
			}
		} else if st.A == 0 && s.holdGate != nil {
			close(s.holdGate)
			s.holdGate = nil
			s.mu.Unlock()
		} else {
			s.mu.Unlock()
		}
		synctest.Wait()
	case "subdrop":
		s.mu.Lock()
		if len(s.servers) > 0 {
			srv := s.servers[len(s.servers)-1]
			s.mu.Unlock()
			srv.Stop()
			s.mu.Lock()
			s.stats.Fault("connection-drop")
		}
		s.mu.Unlock()
	case "reobs":
		s.reobserve(st, obsvReqC)
	}
}

func (s *evmSim) reorg(depth, mode int) {
	s.mu.Lock()
	defer s.mu.Unlock()
	if depth > int(s.head()-s.finalized) {
		depth = int(s.head() - s.finalized) // finalized blocks are never replaced
	}
	if depth <= 0 {
		return
	}
	s.stats.Fault(fmt.Sprintf("reorg-mode-%d", mode))
	old := s.chain[len(s.chain)-depth:]
	s.chain = s.chain[:len(s.chain)-depth]
	var moved []*evmTx
	for _, ob := range old {
		nb := s.newBlock(uint64(len(s.chain)))
		s.chain = append(s.chain, nb)
		for _, tx := range ob.txs {
			tx.mutated = true
			s.notify(tx, ob, true)
			switch mode {
			case 0: // dropped for good
				tx.block = nil
			case 1: // re-mined at the same height in the new block
				tx.block = nb
				nb.txs = append(nb.txs, tx)
				s.notify(tx, nb, false)
			case 2: // re-mined later
				tx.block = nil
				moved = append(moved, tx)
			case 3: // re-mined, but now it fails
				tx.block = nb
				tx.status = 0
				nb.txs = append(nb.txs, tx)
			}
		}
	}
	nb := s.newBlock(uint64(len(s.chain)))
	s.chain = append(s.chain, nb)
	for _, tx := range moved {
		tx.block = nb
		nb.txs = append(nb.txs, tx)
		s.notify(tx, nb, false)
	}
}

func (s *evmSim) reobserve(st simkit.Step, obsvReqC chan *gossipv1.ObservationRequest) {
	synctest.Wait()
	s.mu.Lock()
	n := len(s.txs)
	chain := uint32(vaa.ChainIDBSC)
	if s.useFinal {
		chain = uint32(vaa.ChainIDEthereum)
	}
	var hash []byte
	var raceTx *evmTx
	if st.B%5 == 4 || n == 0 {
		hash = crypto.Keccak256([]byte("nonexistent"), []byte{byte(st.A)})
		s.stats.Fault("reobserve-unknown-tx")
	} else {
		raceTx = s.txs[int(st.A)%n]
		hash = raceTx.hash.Bytes()
	}
	s.reobsPhase = true
	s.headServedInPhase = 0
	s.mu.Unlock()
	select {
	case obsvReqC <- &gossipv1.ObservationRequest{ChainId: chain, TxHash: hash}:
	default:
	}
	for k := 0; k < 200; k++ {
		synctest.Wait()
		p := s.pick(true)
		if p == nil {
			break
		}
		s.release(p)
		if k == 0 && st.C == 1 && raceTx != nil {
			// the chain changes between the first and the second RPC call of this re-observation:
			// the transaction's block is replaced and the head moves far ahead
			synctest.Wait()
			s.raceReorg(raceTx)
		}
	}
	synctest.Wait()
	// a request the watcher did not pick up now (it is restarting) is withdrawn, otherwise it would
	// be handled later, outside the phase that attributes hand-offs to the re-observation path
	select {
	case <-obsvReqC:
		s.stats.Probe("reobservation-request-withdrawn")
	default:
	}
	s.mu.Lock()
	s.reobsPhase = false
	s.mu.Unlock()
	s.stats.Probe("reobservation-requests")
	_ = hex.EncodeToString
}

// notePending looks at the watcher's pending set while the bubble is quiescent (whoever holds the
// pending lock is parked on an RPC call, nobody writes). A message that was pending once is owed to
// the signer - by this Run or by the next one the supervisor starts on the same Watcher - unless its
// transaction leaves its block or the abandonment window runs out.
func (s *evmSim) notePending() {
	if s.watcher == nil {
		return
	}
	s.mu.Lock()
	defer s.mu.Unlock()
	for k := range s.watcher.pending {
		for _, tx := range s.txs {
			if tx.hash != k.TxHash {
				continue
			}
			for _, l := range tx.logs {
				pk := fmt.Sprintf("%d/%s", l.idx, k.BlockHash.Hex())
				if l.sequence == k.Sequence && PadAddress(l.sender) == k.EmitterAddress && l.good && !tx.pendingSeen[pk] {
					tx.pendingSeen[pk] = true
					s.stats.Probe("message-seen-pending")
				}
			}
		}
	}
}

// pollsForLog: the number of head polls is part of the canonical log, except in runs that used the
// busy-consumer scenario: there a goroutine of the previous Run lives on next to the new ones, and
// how their polls interleave at one instant is the Go scheduler's business (it changes no verdict).
func (s *evmSim) pollsForLog() string {
	if s.holdUsed || s.inc > 1 || s.nFaults > 0 {
		// (after a restart the first poll of the new poller and the last one of the old poller fall
		// on the same instant in an order the Go scheduler picks; with injected faults the poller's
		// retries and the header loop's own block queries interleave likewise. The count is a log
		// detail, no oracle reads it.)
		return "-"
	}
	return strconv.Itoa(s.reqs["blockByNumber"])
}

func (s *evmSim) stallRecently() bool {
	for _, f := range s.faults {
		if f.code == 1 && f.kind == "receipt" && s.now() >= f.from && s.now() <= f.until+45*time.Second {
			return true
		}
	}
	return false
}

func (s *evmSim) raceReorg(tx *evmTx) {
	s.mu.Lock()
	if tx.block == nil || !s.canonical(tx.block) || tx.block.number <= s.finalized {
		s.mu.Unlock()
		return
	}
	depth := int(s.head() - tx.block.number + 1)
	s.mu.Unlock()
	s.reorg(depth, 0)
	s.mu.Lock()
	s.mine(70)
	if s.useFinal {
		s.finalized = s.head()
	}
	s.stats.Fault("reorg-between-two-calls-of-a-reobservation")
	s.mu.Unlock()
}

// settleAndCheck: faults stop; the head moves on - including one jump of more than the
// abandonment window - and every log that the running watcher incarnation received, whose
// transaction stayed in its block, must have been handed over exactly once.
func (s *evmSim) settleAndCheck() {
	s.mu.Lock()
	s.faults = nil
	s.raceLogs = nil
	if s.holdGate != nil {
		close(s.holdGate)
		s.holdGate = nil
	}
	s.mu.Unlock()
	// injected stalls (40 s), the callers' deadlines (15 s) and supervisor back-off must run out first
	s.pump(s.now() + 70*time.Second)
	// part one: no new message arrives; whatever the running incarnation has pending must come out
	// on its own as the head moves on (a later message must not be needed to wake the poller up)
	if !s.settleRounds("quiet", 3) {
		return
	}
	// part two: fresh messages for the incarnation that is running now, and a head jump
	s.mu.Lock()
	for i := 0; i < 2; i++ {
		tx := s.addTx(0, int(s.prog.C("settle_level", 1))%64, i)
		b := s.newBlock(uint64(len(s.chain)))
		s.chain = append(s.chain, b)
		b.txs = append(b.txs, tx)
		tx.block = b
		s.notify(tx, b, false)
	}
	s.mu.Unlock()
	s.pump(s.now() + 2*time.Second)
	s.settleRounds("fresh", int(s.prog.C("settle_jump", 3)))
}

// settleRounds advances the head (with one jump of `jump` blocks) past the depth of every pending
// message and then checks exactly-once delivery for the running incarnation. It returns false
// when the run should end (violation found or watcher restarted).
func (s *evmSim) settleRounds(tag string, jump int) bool {
	s.mu.Lock()
	incAtSettle := s.inc
	s.mu.Unlock()
	poll := time.Duration(s.prog.C("poll_ms", 1000)) * time.Millisecond
	for r := 0; r < 4 && !s.aborting; r++ {
		s.mu.Lock()
		n := 2
		if r == 1 {
			n = jump
		}
		if r == 3 {
			// the last round goes past the depth of every pending message
			need := uint64(0)
			for _, tx := range s.txs {
				for _, l := range tx.logs {
					if tx.block != nil && tx.block.number+uint64(l.level)+2 > need {
						need = tx.block.number + uint64(l.level) + 2
					}
				}
			}
			if need > s.head() {
				n = int(need - s.head())
			}
		}
		s.mine(n)
		s.finalized = s.head()
		if n > 60 {
			s.stats.Fault("head-jump-over-60")
		}
		s.mu.Unlock()
		s.pump(s.now() + 3*poll + 500*time.Millisecond)
		s.mu.Lock()
		s.log.Add("settle %s round %d head=%d seen=%d polls=%s inc=%d", tag, r, s.head(), s.maxHeadServed, s.pollsForLog(), s.inc)
		s.mu.Unlock()
		s.log.Cut("settle")
	}
	s.mu.Lock()
	defer s.mu.Unlock()
	if s.inc != incAtSettle {
		s.stats.Probe("watcher-restarted-during-settle")
		return false
	}
	for _, tx := range s.txs {
		if tx.deliveredBlock == nil {
			continue
		}
		stays := tx.block == tx.deliveredBlock && s.canonical(tx.block) && tx.status == 1
		for _, lg := range tx.logs {
			if !lg.good {
				continue
			}
			if tx.deliveredInc != s.inc && !tx.pendingSeen[fmt.Sprintf("%d/%s", lg.idx, tx.deliveredBlock.hash.Hex())] {
				continue // the log went to an earlier Run and was lost with it before it became pending
			}
			if tx.deliveredInc != s.inc {
				s.stats.Probe("pending-message-carried-over-a-restart")
			}
			n := 0
			if tx.block != nil {
				n = tx.handoffs[fmt.Sprintf("poll/%d/%s", lg.idx, tx.block.hash.Hex())]
			}
			switch {
			case stays && n == 0 && tx.abandonLegit:
				s.stats.Probe("abandoned-after-failing-for-the-whole-window")
			case stays && n == 0:
				s.violate("final-message-not-forwarded", "log #%d seq=%d (level %d) in block %d stayed in its block, the chain head is %d and the watcher has seen head %d, but the message was never handed over (settle part %q, head jump %d)",
					lg.idx, lg.sequence, lg.level, tx.block.number, s.head(), s.maxHeadServed, tag, jump)
				return false
			case stays && n > 1:
				s.violate("forwarded-twice", "log #%d seq=%d handed over %d times", lg.idx, lg.sequence, n)
				return false
			case stays:
				s.stats.Probe("final-message-forwarded-once")
			}
		}
	}
	return true
}

func (evmHarness) Gen(seed uint64, prop, tier string) *simkit.Program {
	r := simkit.NewRng(seed, "evmsim")
	p := &simkit.Program{Cfg: map[string]int64{}}
	add := func(op string, a, b, c int64) { p.Steps = append(p.Steps, simkit.Step{Op: op, A: a, B: b, C: c}) }
	if r.P(0.5) {
		p.Cfg["finalized"] = 1
	}
	p.Cfg["poll_ms"] = int64([]int{250, 1000, 3000}[r.Intn(3)])
	p.Cfg["settle_jump"] = int64([]int{1, 3, 20, 61, 64, 90, 200}[r.Intn(7)])
	p.Cfg["settle_level"] = int64(r.Pick(3, 2, 2)*5 + r.Intn(4))
	level := func() int64 { return int64(r.Pick(4, 3, 2, 1)*3 + r.Intn(3)) }
	n := 4 + r.Intn(14)
	for i := 0; i < n; i++ {
		switch r.Pick(8, 6, 6, 3, 3, 3, 1, 3) {
		case 0:
			add("log", int64(r.Pick(8, 2, 2, 2, 2, 2, 2)), level(), int64(r.Intn(64)))
		case 1:
			d := int64(r.Pick(5, 3, 1, 1)) // 0..3 -> small, medium, big
			nb := []int64{int64(r.Range(1, 3)), int64(r.Range(4, 15)), int64(r.Range(30, 59)), int64(r.Range(61, 150))}[d]
			fin := int64(r.Range(0, int(nb)+3))
			if r.P(0.3) {
				fin = nb + 100
			}
			add("head", nb, fin, 0)
		case 2:
			add("adv", int64(r.Range(1, 12))*p.Cfg["poll_ms"], 0, 0)
		case 3:
			add("reorg", int64(r.Range(1, 4)), int64(r.Intn(4)), 0)
		case 4:
			add("reobs", int64(r.Intn(16)), int64(r.Intn(5)), int64(r.Pick(3, 1)))
		case 5:
			add("fault", int64(r.Pick(2, 2, 4, 1, 1)), int64(r.Intn(3)), int64(r.Intn(3)))
		case 6:
			if r.P(0.3) {
				// a message is pending when head polls fail three times in a row: the watcher restarts. The
				// new Run is slow to subscribe (but succeeds), and meanwhile the polls of its new poller
				// fail three times in a row as well - with nobody listening to the poller's errors yet
				add("log", 0, int64(r.Intn(3)), int64(r.Intn(64)))
				add("adv", p.Cfg["poll_ms"], 0, 0)
				add("fault", 0, 0, 1) // blockByNumber: error, 4 poll intervals
				add("adv", 3*p.Cfg["poll_ms"], 0, 0)
				add("fault", 4, 3, 2) // subscribe: slow
				add("adv", 3*p.Cfg["poll_ms"], 0, 0)
				add("fault", 0, 0, 2) // blockByNumber: error, 6 poll intervals
				add("adv", 14*p.Cfg["poll_ms"], 0, 0)
				add("head", int64(r.Range(3, 8)), 120, 0)
				add("adv", 4*p.Cfg["poll_ms"], 0, 0)
			} else if r.P(0.3) {
				// a message is pending when head polls start failing: the watcher restarts, and while the
				// new Run is still held up subscribing, the polls of its new poller fail as well
				add("log", 0, int64(r.Intn(3)), int64(r.Intn(64)))
				add("adv", p.Cfg["poll_ms"], 0, 0)
				add("fault", 4, 1, 2) // subscribe: stall
				add("fault", 0, 0, 2) // blockByNumber: error
				add("adv", 5*p.Cfg["poll_ms"], 0, 0)
				add("fault", 0, 0, 2)
				add("adv", 6*p.Cfg["poll_ms"], 0, 0)
				add("fault", 0, 0, 2)
				add("adv", 8*p.Cfg["poll_ms"], 0, 0)
			} else if r.P(0.5) {
				add("subdrop", 0, 0, 0)
			} else {
				// the signing pipeline is busy while a message becomes due and an RPC fault restarts the watcher
				add("log", 0, int64(r.Intn(3)), int64(r.Intn(64)))
				add("hold", 1, 0, 0)
				add("head", int64(r.Range(3, 8)), 120, 0)
				add("adv", 3*p.Cfg["poll_ms"], 0, 0)
				add("fault", int64(r.Pick(2, 2, 0, 1, 1)), 0, int64(r.Intn(3)))
				add("log", 0, level(), int64(r.Intn(64)))
				add("adv", int64(r.Range(4, 10))*p.Cfg["poll_ms"], 0, 0)
				add("hold", 0, 0, 0)
				if r.P(0.5) {
					// ... and once it takes messages again, a transient lookup fault and a head jump past the
					// abandonment window: time the watcher itself lost must not count against a message
					add("adv", int64(r.Range(1, 4))*p.Cfg["poll_ms"], 0, 0)
					add("fault", 2, int64(r.Pick(2, 0, 1)), 0)
					add("head", int64(r.Range(61, 150)), int64(r.Range(100, 260)), 0)
					add("adv", int64(r.Range(1, 4))*p.Cfg["poll_ms"], 0, 0)
				}
				add("adv", 2*p.Cfg["poll_ms"], 0, 0)
			}
		case 7:
			// a message whose confirmation empties the pending set, and a second one logged meanwhile
			add("log", 0, level(), int64(r.Intn(64)))
			add("racelog", 0, level(), 0)
			add("head", int64(r.Range(8, 20)), 120, 0)
			add("adv", int64(r.Range(2, 6))*p.Cfg["poll_ms"], 0, 0)
		}
	}
	return p
}

func TestVerifSim(t *testing.T) {
	if os.Getenv("VERIF_OUT") == "" {
		t.Skip("verification harness: run through /verif/bin/check")
	}
	if msg := simkit.Main(evmHarness{t}); msg != "" {
		fmt.Println("HARNESS-TROUBLE: " + msg)
		t.Fatal(msg)
	}
}
