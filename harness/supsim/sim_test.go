//go:build verif

// supsim (C18): the whole supervisor package inside a synctest bubble. Real code: New, the
// processor loop with its 1 ms GC ticker, processSchedule/processDied/processGC/processKill,
// RunGroup, Signal, cenkalti/backoff. Simulated: the supervised services (scripted: children,
// failure time and kind per incarnation, exit latency after cancellation), the clock.
// The only configuration change: each service zeroes its node's back-off jitter on entry
// (RandomizationFactor=0), because the jitter is drawn from the global math/rand in Go map
// order and would make runs unrepeatable (rule D3). Back-off growth and cap are untouched.
package supervisor

import (
	"context"
	"errors"
	"fmt"
	"os"
	"sort"
	"strings"
	"sync"
	"testing"
	"testing/synctest"
	"time"

	"go.uber.org/zap"

	"verif.local/simkit"
)

// verifRWMutex replaces sync.RWMutex as the supervisor's tree lock (see overlay.py): a one-slot
// channel created on first use, so that waiting for the lock is a durable wait for synctest.
type verifRWMutex struct {
	init sync.Mutex
	c    chan struct{}
}

func (m *verifRWMutex) ch() chan struct{} {
	m.init.Lock()
	defer m.init.Unlock()
	if m.c == nil {
		m.c = make(chan struct{}, 1)
	}
	return m.c
}
func (m *verifRWMutex) Lock()    { m.ch() <- struct{}{} }
func (m *verifRWMutex) Unlock()  { <-m.ch() }
func (m *verifRWMutex) RLock()   { m.Lock() }
func (m *verifRWMutex) RUnlock() { m.Unlock() }

type failPlan struct {
	after time.Duration
	kind  int // 0 error, 1 nil return, 2 panic, 3 illegal signal, 4 panic while winding down, 5 gives up after RunGroup refused a taken name
}

type svcSpec struct {
	dn        string // "root", "root.a", ...
	name      string
	kind      int // 0 serve, 1 done (returns nil at once), 2 done, but may return an error or panic right after saying so
	exitLat   time.Duration
	group     int64
	preHealth bool
	fails     map[int]failPlan
	chronic   *failPlan // fails like this in every incarnation that has no plan of its own
	children  []*svcSpec
}

type incarnation struct {
	spec     *svcSpec
	n        int
	ctx      context.Context
	parent   *incarnation
	enterAt  time.Duration
	exitAt   time.Duration
	exited   bool
	failedAt time.Duration
	failed   bool
	failKind int
	doneOK   bool // signalled done and returned nil
}

type supWorld struct {
	mu        sync.Mutex
	res       *simkit.Result
	stats     *simkit.Stats
	start     time.Time
	specs     map[string]*svcSpec
	running   map[string]int
	incs      map[string][]*incarnation
	events    []string
	cancelAt  time.Duration
	cancelled bool
	rootCtx   context.Context
	hot       map[string][]time.Duration // restarts of a failed service that followed its exit without any wait
	abort     chan struct{}              // closed when a crash loop was seen: no point in simulating it for minutes
	aborted   bool
}

// sleepOrAbort waits for d of simulated time, or less if the run was aborted.
func (w *supWorld) sleepOrAbort(d time.Duration) {
	tm := time.NewTimer(d)
	defer tm.Stop()
	select {
	case <-tm.C:
	case <-w.abort:
	}
}

func (w *supWorld) now() time.Duration { return time.Since(w.start) }

func (w *supWorld) violate(key, format string, a ...interface{}) {
	for _, v := range w.res.Violations {
		if v.Key == key {
			return
		}
	}
	w.res.Violations = append(w.res.Violations, simkit.Violation{Prop: "C18", Key: key, Step: -1, Detail: fmt.Sprintf(format, a...)})
}

func (w *supWorld) ev(format string, a ...interface{}) {
	w.events = append(w.events, fmt.Sprintf("%012d ", int64(w.now()/time.Microsecond))+fmt.Sprintf(format, a...))
}

func (w *supWorld) runnable(spec *svcSpec, parent func() *incarnation) Runnable {
	return func(ctx context.Context) error {
		n, unlock := fromContext(ctx)
		n.bo.RandomizationFactor = 0
		unlock()

		w.mu.Lock()
		inc := &incarnation{spec: spec, n: len(w.incs[spec.dn]), ctx: ctx, enterAt: w.now()}
		if parent != nil {
			inc.parent = parent()
		}
		w.incs[spec.dn] = append(w.incs[spec.dn], inc)
		w.running[spec.dn]++
		if w.running[spec.dn] > 1 {
			w.violate("two-instances-of-one-service", "service %s entered while a previous instance is still running (t=%v)", spec.dn, w.now())
		}
		if w.cancelled && w.now() > w.cancelAt+2*time.Millisecond {
			w.violate("restart-after-shutdown", "service %s entered %v after the supervisor context was cancelled", spec.dn, w.now()-w.cancelAt)
		}
		if ctx.Err() != nil {
			w.stats.Probe("entered-with-cancelled-context")
		}
		w.checkReenter(inc)
		w.ev("enter %s #%d", spec.dn, inc.n)
		w.mu.Unlock()

		defer func() {
			w.mu.Lock()
			w.running[spec.dn]--
			inc.exited = true
			inc.exitAt = w.now()
			w.ev("exit %s #%d", spec.dn, inc.n)
			w.mu.Unlock()
		}()

		// spawn children, group by group
		groups := map[int64]map[string]Runnable{}
		var gids []int64
		for _, c := range spec.children {
			if groups[c.group] == nil {
				groups[c.group] = map[string]Runnable{}
				gids = append(gids, c.group)
			}
			groups[c.group][c.name] = w.runnable(c, func() *incarnation { return inc })
		}
		sort.Slice(gids, func(i, j int) bool { return gids[i] < gids[j] })
		for _, g := range gids {
			if err := RunGroup(ctx, groups[g]); err != nil {
				w.mu.Lock()
				w.violate("rungroup-failed", "RunGroup under %s: %v", spec.dn, err)
				w.mu.Unlock()
			}
		}
		plan, hasPlan := spec.fails[inc.n]
		if !hasPlan && spec.chronic != nil {
			plan, hasPlan = *spec.chronic, true
		}
		fail := func() error {
			w.mu.Lock()
			inc.failed, inc.failedAt, inc.failKind = true, w.now(), plan.kind
			w.stats.Fault([]string{"service-returns-error", "service-returns-nil", "service-panics", "service-signals-illegally", "", "service-registers-a-taken-name"}[plan.kind])
			w.ev("fail %s #%d kind=%d", spec.dn, inc.n, plan.kind)
			w.mu.Unlock()
			switch plan.kind {
			case 0:
				return errors.New("scripted failure")
			case 1:
				return nil
			case 3:
				// an illegal life-cycle signal: the supervisor API panics while it holds the tree lock
				Signal(ctx, SignalHealthy)
				Signal(ctx, SignalHealthy)
				return errors.New("unreachable")
			case 5:
				// a batch of workers of which one has a name that is already taken: RunGroup refuses,
				// the service gives up with that error - a failure like any other
				idle := func(ctx context.Context) error {
					Signal(ctx, SignalHealthy)
					<-ctx.Done()
					return ctx.Err()
				}
				taken := "dupx"
				if len(spec.children) > 0 {
					taken = spec.children[0].name
				} else if err := Run(ctx, taken, idle); err != nil {
					return fmt.Errorf("starting a worker: %w", err)
				}
				err := RunGroup(ctx, map[string]Runnable{taken: idle, "fresh1": idle, "fresh2": idle, "fresh3": idle})
				if err == nil {
					w.mu.Lock()
					w.stats.Probe("taken-name-accepted")
					w.mu.Unlock()
					return errors.New("scripted failure")
				}
				return fmt.Errorf("starting workers: %w", err)
			default:
				panic("scripted panic")
			}
		}
		wait := func() (cancelled bool) {
			if !hasPlan || plan.kind == 4 {
				<-ctx.Done()
				return true
			}
			tm := time.NewTimer(plan.after)
			defer tm.Stop()
			select {
			case <-ctx.Done():
				return true
			case <-tm.C:
				return false
			}
		}
		leave := func() error {
			if spec.exitLat > 0 {
				time.Sleep(spec.exitLat)
				w.mu.Lock()
				w.stats.Probe("slow-exit")
				w.mu.Unlock()
			}
			if hasPlan && plan.kind == 4 {
				// cancelled (its group is being restarted or the supervisor shuts down) and then panics
				// while winding down: a death like any other
				w.mu.Lock()
				inc.failed, inc.failedAt, inc.failKind = true, w.now(), 4
				w.stats.Fault("service-panics-while-winding-down")
				w.ev("fail %s #%d kind=4", spec.dn, inc.n)
				w.mu.Unlock()
				panic("scripted panic after cancel")
			}
			return ctx.Err()
		}
		if spec.preHealth && hasPlan && plan.kind != 4 {
			if wait() {
				return leave()
			}
			w.mu.Lock()
			w.stats.Probe("failure-before-healthy")
			w.mu.Unlock()
			return fail()
		}
		Signal(ctx, SignalHealthy)
		if spec.kind != 0 && hasPlan && plan.kind == 4 {
			hasPlan = false // a set-up-only service does not wait to be cancelled
		}
		if spec.kind == 2 && hasPlan && (plan.kind == 0 || plan.kind == 2) {
			// says it is done and then does not return cleanly: a failure like any other
			Signal(ctx, SignalDone)
			w.mu.Lock()
			w.stats.Probe("failure-right-after-signalling-done")
			w.mu.Unlock()
			return fail()
		}
		if spec.kind == 1 || spec.kind == 2 {
			Signal(ctx, SignalDone)
			w.mu.Lock()
			inc.doneOK = true
			w.mu.Unlock()
			return nil
		}
		if wait() {
			return leave()
		}
		return fail()
	}
}

// checkReenter evaluates the obligations that are due when a service is entered again.
func (w *supWorld) checkReenter(inc *incarnation) {
	prevs := w.incs[inc.spec.dn]
	if len(prevs) < 2 {
		return
	}
	prev := prevs[len(prevs)-2]
	if prev.doneOK && prev.parent == inc.parent && prev.parent != nil {
		w.violate("done-service-restarted", "service %s signalled done and returned nil but was started again under the same parent instance", inc.spec.dn)
	}
	if prev.failed && prev.parent == inc.parent && prev.exited && inc.enterAt-prev.exitAt < 10*time.Millisecond {
		// "started again after a bounded back-off": a service that keeps failing and is started again
		// the moment it has returned, over and over, is in a crash loop, not backing off. One or a few
		// immediate restarts are not judged; more than 20 within a simulated minute are.
		w.stats.Probe("restart-without-wait")
		h := append(w.hot[inc.spec.dn], inc.enterAt)
		for len(h) > 0 && h[0] < inc.enterAt-time.Minute {
			h = h[1:]
		}
		w.hot[inc.spec.dn] = h
		if len(h) > 20 {
			w.violate("restart-without-back-off", "service %s failed and was started again at once %d times within a minute (latest at %v): a crash loop instead of a back-off", inc.spec.dn, len(h), w.now())
			if !w.aborted && w.abort != nil {
				w.aborted = true
				close(w.abort)
			}
		}
	}
	if prev.failed && prev.parent == inc.parent {
		// every member of its group that was alive at the failure must have been cancelled by now
		parentSpec := w.specs[parentDN(inc.spec.dn)]
		if parentSpec != nil {
			for _, sib := range parentSpec.children {
				if sib == inc.spec || sib.group != inc.spec.group {
					continue
				}
				for _, si := range w.incs[sib.dn] {
					if si.parent == inc.parent && si.enterAt <= prev.failedAt && (!si.exited || si.exitAt >= prev.failedAt) && si.ctx.Err() == nil {
						w.violate("group-member-not-cancelled", "%s failed at %v and is restarted at %v but its group member %s was not cancelled", inc.spec.dn, prev.failedAt, w.now(), sib.dn)
					}
				}
			}
		}
		// its own children must have been cancelled and must have returned
		for _, c := range inc.spec.children {
			for _, ci := range w.incs[c.dn] {
				if ci.parent == prev && !ci.exited {
					w.violate("restarted-with-live-child", "%s restarted while child %s of the failed instance is still running", inc.spec.dn, c.dn)
				}
			}
		}
	}
	if inc.parent != nil && inc.parent.ctx.Err() != nil {
		w.stats.Probe("started-under-cancelled-parent")
	}
}

func parentDN(dn string) string {
	i := strings.LastIndex(dn, ".")
	if i < 0 {
		return ""
	}
	return dn[:i]
}

func (w *supWorld) sumExitLat(s *svcSpec) time.Duration {
	t := s.exitLat
	for _, c := range s.children {
		t += w.sumExitLat(c)
	}
	return t
}

// finalChecks: restart deadlines and shutdown, over the recorded history.
func (w *supWorld) finalChecks(end time.Duration) {
	var dns []string
	for dn := range w.incs {
		dns = append(dns, dn)
	}
	sort.Strings(dns)
	for _, dn := range dns {
		list := w.incs[dn]
		for i, inc := range list {
			if !inc.failed {
				continue
			}
			deadline := inc.failedAt + w.sumExitLat(inc.spec) + 90*time.Second + 50*time.Millisecond
			// the obligation holds while the supervisor context and the parent instance stay live
			limit := end
			if w.cancelled && w.cancelAt < limit {
				limit = w.cancelAt
			}
			if deadline > limit {
				continue
			}
			void := false
			for p := inc.parent; p != nil; p = p.parent {
				// a parent that signalled done and returned nil stays in the tree: its children remain
				// supervised; any other way of ending voids the obligation (the subtree is rebuilt)
				if p.failed && p.failedAt <= deadline || p.exited && p.exitAt <= deadline && !p.doneOK {
					void = true
				}
				// ... unless a member of the done parent's own group failed meanwhile: that cancels the
				// group's contexts, the done parent's included (it is "left alone", i.e. not started
				// again), and with it everything below it
				if p.doneOK {
					if ps := w.specs[parentDN(p.spec.dn)]; ps != nil {
						for _, sib := range ps.children {
							if sib == p.spec || sib.group != p.spec.group {
								continue
							}
							for _, si := range w.incs[sib.dn] {
								if si.parent == p.parent && si.failed && si.failedAt <= deadline {
									void = true
								}
							}
						}
					}
				}
			}
			if void {
				continue
			}
			ok := false
			if i+1 < len(list) && list[i+1].enterAt > inc.failedAt && list[i+1].enterAt <= deadline && list[i+1].parent == inc.parent {
				ok = true
			}
			if !ok {
				w.violate("failed-service-not-restarted", "%s failed (kind %d) at %v and was not started again by %v (root context live, parent instance live)", dn, inc.failKind, inc.failedAt, deadline)
			}
			// group members that were serving must be started again as well
			ps := w.specs[parentDN(dn)]
			if ps == nil {
				continue
			}
			for _, sib := range ps.children {
				if sib == inc.spec || sib.group != inc.spec.group || sib.kind == 1 || sib.kind == 2 {
					continue
				}
				var alive *incarnation
				sl := w.incs[sib.dn]
				idx := -1
				for k, si := range sl {
					if si.parent == inc.parent && si.enterAt <= inc.failedAt && (!si.exited || si.exitAt > inc.failedAt) {
						alive, idx = si, k
					}
				}
				if alive == nil {
					continue
				}
				dl := deadline + w.sumExitLat(sib)
				if dl > limit {
					continue
				}
				if !(idx+1 < len(sl) && sl[idx+1].enterAt <= dl && sl[idx+1].parent == inc.parent) {
					w.violate("group-member-not-restarted", "%s failed at %v; its group member %s was not started again by %v", dn, inc.failedAt, sib.dn, dl)
				}
			}
		}
	}
	if w.cancelled {
		for _, dn := range dns {
			for _, inc := range w.incs[dn] {
				if inc.ctx.Err() == nil {
					w.violate("context-not-cancelled-at-shutdown", "%s #%d still has a live context after the supervisor context was cancelled", dn, inc.n)
				}
				if !inc.exited {
					w.violate("service-still-running-after-shutdown", "%s #%d did not stop", dn, inc.n)
				}
			}
		}
	}
}

type supHarness struct{ t *testing.T }

func (supHarness) Name() string { return "supsim" }

var supPrimes = []int64{1009, 2003, 3001, 5003, 7001, 11003, 13007, 17011, 19013, 23017, 29009, 31019, 37021, 41023, 43027, 47029, 53033, 59029, 61031, 67033, 71039, 73037, 79043, 83047, 89041, 97049}

func (supHarness) Gen(seed uint64, prop, tier string) *simkit.Program {
	r := simkit.NewRng(seed, "supsim")
	p := &simkit.Program{Cfg: map[string]int64{}}
	add := func(op, x string, a, b, c, d int64) {
		p.Steps = append(p.Steps, simkit.Step{Op: op, X: x, A: a, B: b, C: c, D: d})
	}
	prime := 0
	nextPrime := func() int64 {
		v := supPrimes[prime%len(supPrimes)] + int64(prime/len(supPrimes))*100003
		prime++
		return v
	}
	p.Cfg["propagate"] = 0
	if r.P(0.2) {
		p.Cfg["propagate"] = 1
	}
	if r.P(0.15) {
		p.Cfg["rootdone"] = 1
	}
	var dns []string
	var build func(parent string, depth int)
	build = func(parent string, depth int) {
		n := r.Range(1, 3)
		if depth == 1 {
			n = r.Range(1, 4)
		}
		g := int64(0)
		for i := 0; i < n; i++ {
			if i > 0 && r.P(0.5) {
				g++
			}
			dn := parent + "." + string(rune('a'+i))
			kind := int64(0)
			if r.P(0.15) {
				kind = 1
			} else if r.P(0.12) {
				kind = 2
			}
			lat := int64(0)
			if r.P(0.4) {
				lat = nextPrime() * int64(r.Range(1, 60))
			}
			flags := int64(0)
			if r.P(0.12) {
				flags = 1
			}
			add("svc", dn, kind, lat, g, flags)
			dns = append(dns, dn)
			if depth < 3 && r.P(0.45) {
				build(dn, depth+1)
			}
		}
	}
	build("root", 1)
	// scripted failures in the first part of the run
	nf := r.Range(1, 5)
	for i := 0; i < nf; i++ {
		dn := dns[r.Intn(len(dns))]
		if r.P(0.07) {
			dn = "root"
		}
		kind := int64(r.Pick(4, 3, 3, 2, 2, 2))
		if p.Cfg["propagate"] == 1 && kind >= 2 && kind != 5 {
			kind = 0
		}
		after := nextPrime() * int64(r.Range(1, 400)) // up to ~40 s
		add("fail", dn, int64(r.Pick(6, 3, 1)), after, kind, 0)
	}
	p.Cfg["horizon_ms"] = int64(r.Range(150, 320)) * 1000
	if r.P(0.1) {
		// a long run with a service that never gets better: the back-off must stay a back-off however
		// long the service has been failing (or was healthy before it began to)
		dn := dns[r.Intn(len(dns))]
		add("chronic", dn, 0, nextPrime()*int64(r.Range(1, 2000)), int64(r.Pick(5, 3, 2)), int64(r.Pick(1, 3)))
		p.Cfg["horizon_ms"] = int64(r.Range(930, 1500)) * 1000
	}
	if r.P(0.6) {
		p.Cfg["cancel_ms"] = int64(r.Range(1, int(p.Cfg["horizon_ms"])))
		if r.P(0.5) {
			p.Cfg["cancel_ms"] = p.Cfg["horizon_ms"]
		}
	}
	return p
}

func (h supHarness) Exec(p *simkit.Program) *simkit.Result {
	res := &simkit.Result{Seed: p.Seed, Prop: p.Prop, Steps: len(p.Steps)}
	w := &supWorld{res: res, stats: simkit.NewStats(), specs: map[string]*svcSpec{}, running: map[string]int{}, incs: map[string][]*incarnation{}, hot: map[string][]time.Duration{}}
	root := &svcSpec{dn: "root", name: "root", fails: map[int]failPlan{}}
	if p.C("rootdone", 0) == 1 {
		root.kind = 1 // the root only sets its children up, signals done and returns
	}
	w.specs["root"] = root
	for _, st := range p.Steps {
		if st.Op != "svc" || st.X == "" || w.specs[st.X] != nil {
			continue
		}
		par := w.specs[parentDN(st.X)]
		if par == nil {
			continue // orphan (its parent was shrunk away)
		}
		name := st.X[strings.LastIndex(st.X, ".")+1:]
		s := &svcSpec{dn: st.X, name: name, kind: []int{0, 1, 2, 0}[st.A&3], exitLat: time.Duration(st.B) * time.Microsecond, group: st.C, preHealth: st.D&1 == 1, fails: map[int]failPlan{}}
		if s.exitLat < 0 {
			s.exitLat = 0
		}
		par.children = append(par.children, s)
		w.specs[st.X] = s
	}
	for _, st := range p.Steps {
		if st.Op != "fail" {
			continue
		}
		s := w.specs[st.X]
		if s == nil || s.kind == 1 {
			continue
		}
		after := time.Duration(st.B) * time.Microsecond
		if after <= 0 {
			after = time.Microsecond
		}
		kind := int(st.C) % 6
		if kind < 0 {
			kind = 0
		}
		if p.C("propagate", 0) == 1 && kind >= 2 && kind != 5 {
			kind = 0
		}
		s.fails[int(st.A)%8] = failPlan{after, kind}
	}
	for _, st := range p.Steps {
		if st.Op != "chronic" {
			continue
		}
		s := w.specs[st.X]
		if s == nil || s.kind == 1 {
			continue
		}
		after := time.Duration(st.B) * time.Microsecond
		if after <= 0 {
			after = time.Microsecond
		}
		kind := int(st.C) % 3
		if kind < 0 || p.C("propagate", 0) == 1 && kind >= 2 {
			kind = 0
		}
		s.chronic = &failPlan{after, kind}
		if st.D&1 == 1 {
			s.preHealth = true
		}
	}
	horizon := time.Duration(p.C("horizon_ms", 200000)) * time.Millisecond
	cancelAt := time.Duration(p.C("cancel_ms", 0)) * time.Millisecond
	finished := false
	body := func(t *testing.T) {
		w.start = time.Now()
		w.abort = make(chan struct{})
		ctx, cancel := context.WithCancel(context.Background())
		defer cancel()
		w.rootCtx = ctx
		var opts []SupervisorOpt
		if p.C("propagate", 0) == 1 {
			opts = append(opts, WithPropagatePanic)
		}
		New(ctx, zap.NewNop(), w.runnable(root, nil), opts...)
		if cancelAt > 0 && cancelAt <= horizon {
			w.sleepOrAbort(cancelAt)
			synctest.Wait()
			w.mu.Lock()
			w.cancelled, w.cancelAt = true, w.now()
			w.ev("cancel-root")
			w.mu.Unlock()
			cancel()
			w.mu.Lock()
			w.stats.Fault("supervisor-context-cancelled")
			w.mu.Unlock()
			// every service gets its exit latency, then the tree must be quiet
			time.Sleep(w.sumExitLat(root) + 5*time.Second)
		} else {
			w.sleepOrAbort(horizon)
		}
		synctest.Wait()
		w.mu.Lock()
		end := w.now()
		w.finalChecks(end)
		w.mu.Unlock()
		res.SimNs = int64(end)
		if !w.cancelled {
			cancel()
			time.Sleep(w.sumExitLat(root) + time.Second)
			synctest.Wait()
		}
		finished = true
	}
	func() {
		defer func() {
			if r := recover(); r != nil {
				if strings.Contains(fmt.Sprint(r), "deadlock") && finished {
					return // runnable wrappers blocked on pReq after the processor exited (rule D6b)
				}
				res.HarnessErr = "bubble: " + fmt.Sprint(r)
			}
		}()
		synctest.Test(h.t, body)
	}()
	log := &simkit.Log{}
	sort.Strings(w.events)
	for _, e := range w.events {
		log.Add("%s", e)
	}
	log.Cut("history")
	restarts, failures := 0, 0
	for _, l := range w.incs {
		restarts += len(l) - 1
		for _, i := range l {
			if i.failed {
				failures++
			}
		}
	}
	w.stats.ProbeN("services", int64(len(w.specs)))
	w.stats.ProbeN("restarts", int64(restarts))
	w.stats.ProbeN("scripted-failures-fired", int64(failures))
	res.Faults, res.Probes = w.stats.Faults, w.stats.Probes
	res.Log, res.LogHash = log.Lines(), log.Hash()
	res.NonTrivial = failures > 0 && restarts > 0
	return res
}

func TestVerifSim(t *testing.T) {
	if os.Getenv("VERIF_OUT") == "" {
		t.Skip("verification harness: run through /verif/bin/check")
	}
	if msg := simkit.Main(supHarness{t}); msg != "" {
		fmt.Println("HARNESS-TROUBLE: " + msg)
		t.Fatal(msg)
	}
}
