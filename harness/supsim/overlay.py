#!/usr/bin/env python3
"""Build-time seam for supsim: the supervisor's tree lock becomes a channel-based lock (type
verifRWMutex, supplied by the harness) in a scratch copy of supervisor.go taken from /repo's
current working tree. A goroutine blocked on sync.RWMutex is not durably blocked for
testing/synctest, so a lock that is never released would hang the bubble instead of showing up
as services that are not restarted. /repo is not touched."""
import json, os, re, sys
repo, build = sys.argv[1], sys.argv[2]
src = os.path.join(repo, "node/pkg/supervisor/supervisor.go")
text = open(src).read()
if len(re.findall(r"\bmu\s+sync\.RWMutex\b", text)) != 1:
    sys.stderr.write("supsim overlay: expected exactly one declaration 'mu sync.RWMutex' in supervisor.go\n")
    sys.exit(1)
text = re.sub(r"\bmu(\s+)sync\.RWMutex\b", r"mu\1verifRWMutex", text)
if not re.search(r"\bsync\.", re.sub(r"//[^\n]*", "", text)):
    text = text.replace('\t"sync"\n', "")
out = os.path.join(build, "supsim_supervisor.go")
open(out, "w").write(text)
print(json.dumps({src: out}))
