#!/usr/bin/env python3
"""Build-time rewrite for gstsim: a scratch copy of explorer-backend/guardiansets/gst_data.go
(from /repo's current working tree) in which every statement boundary of the GuardianSets
methods is a scheduler-controlled yield and the mutex is cooperative. /repo is not touched."""
import json, os, subprocess, sys
repo, build = sys.argv[1], sys.argv[2]
if os.environ.get("VERIF_RACE") == "1":
    # race-detector tier: the unrewritten source runs with really concurrent tasks
    print("{}")
    sys.exit(0)
verif = os.path.dirname(os.path.dirname(os.path.dirname(os.path.abspath(__file__))))
go = "/opt/veriftools/go1.26.8/bin/go"
env = dict(os.environ, GOFLAGS="-mod=mod", GOPROXY="off", GOSUMDB="off", GOTOOLCHAIN="local")
tool = os.path.join(build, "yieldify.bin")
r = subprocess.run([go, "build", "-o", tool, "."], cwd=os.path.join(verif, "tools", "yieldify"), env=env, capture_output=True, text=True)
if r.returncode != 0:
    sys.stderr.write(r.stderr)
    sys.exit(1)
src = os.path.join(repo, "explorer-backend/guardiansets/gst_data.go")
out = os.path.join(build, "gstsim_gst_data.go")
r = subprocess.run([tool, "-in", src, "-out", out, "-recv", "GuardianSets"], capture_output=True, text=True)
if r.returncode != 0:
    sys.stderr.write(r.stderr)
    sys.exit(1)
print(json.dumps({src: out}))
