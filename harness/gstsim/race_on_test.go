//go:build verif && race

package guardiansets

const raceBuild = true
