//go:build verif

// gstsim (C19, concurrency half): statement-level interleavings of guardian-set lookups with
// appends. The GuardianSets methods are compiled from a scratch copy rewritten by tools/yieldify:
// every statement boundary is a yield to the scheduler below and the mutex is cooperative, so
// one integer decides the whole interleaving (real goroutines, but exactly one runs at a time).
// Real code: GetGuardianSet, GetCurrentGuardianSet, updateGuardianSets, the chain fetch
// (ethclient + abi bindings over the http.DefaultTransport seam). Simulated: the EVM node.
package guardiansets

import (
	"bytes"
	"context"
	"encoding/json"
	"fmt"
	"io"
	"net/http"
	"os"
	"strconv"
	"strings"
	"sync"
	"testing"
	"time"

	"github.com/alephium/wormhole-fork/node/pkg/common"
	ethAbiPkg "github.com/alephium/wormhole-fork/node/pkg/ethereum/abi"
	gethAbi "github.com/ethereum/go-ethereum/accounts/abi"
	ethCommon2 "github.com/ethereum/go-ethereum/common"
	"github.com/ethereum/go-ethereum/common/hexutil"
	"go.uber.org/zap"

	"verif.local/simkit"
)

// ---------------------------------------------------------------------------------------------
// cooperative scheduler (the functions the rewritten source calls)

type task struct {
	name     string
	resume   chan struct{}
	yielded  chan string // label of the yield point, "" when finished
	done     bool
	blocked  bool
	at       string
	fn       func() string // returns a violation detail or ""
	verify   func() string // race tier: judges the result after the concurrent phase
	result   string
	panicked string
}

type scheduler struct {
	cur   *task
	held  map[*sync.Mutex]*task
	trace []string
}

var sched *scheduler

func verifYield(label string) {
	s := sched
	if s == nil || s.cur == nil {
		return
	}
	t := s.cur
	t.at = label
	t.yielded <- label
	<-t.resume
}

func verifLock(mu *sync.Mutex) {
	s := sched
	if s == nil || s.cur == nil {
		mu.Lock()
		return
	}
	t := s.cur
	for s.held[mu] != nil && s.held[mu] != t {
		t.blocked = true
		t.yielded <- "blocked-on-lock"
		<-t.resume
	}
	t.blocked = false
	s.held[mu] = t
}

func verifUnlock(mu *sync.Mutex) {
	s := sched
	if s == nil || s.cur == nil {
		mu.Unlock()
		return
	}
	delete(s.held, mu)
}

// step resumes task t until its next yield (or its end).
func (s *scheduler) step(t *task) {
	s.cur = t
	t.resume <- struct{}{}
	lbl := <-t.yielded
	s.cur = nil
	if lbl == "" {
		t.done = true
	}
	s.trace = append(s.trace, t.name+"@"+lbl)
}

func (s *scheduler) start(t *task) {
	t.resume = make(chan struct{})
	t.yielded = make(chan string)
	go func() {
		<-t.resume
		defer func() {
			if r := recover(); r != nil {
				t.panicked = fmt.Sprint(r)
			}
			t.yielded <- ""
		}()
		t.result = t.fn()
	}()
}

// ---------------------------------------------------------------------------------------------
// simulated chain (same JSON-RPC face as explsim)

var gstABI gethAbi.ABI

func init() {
	a, err := gethAbi.JSON(strings.NewReader(ethAbiPkg.AbiABI))
	if err != nil {
		panic(err)
	}
	gstABI = a
}

type gstChain struct {
	mu   sync.Mutex
	sets [][]ethCommon2.Address
}

func keyAddr(i int) ethCommon2.Address {
	var a ethCommon2.Address
	a[0] = 0xaa
	a[19] = byte(i)
	return a
}

func (c *gstChain) RoundTrip(req *http.Request) (*http.Response, error) {
	body, _ := io.ReadAll(req.Body)
	req.Body.Close()
	var rq struct {
		ID     json.RawMessage   `json:"id"`
		Method string            `json:"method"`
		Params []json.RawMessage `json:"params"`
	}
	mk := func(v interface{}) *http.Response {
		b, _ := json.Marshal(v)
		return &http.Response{StatusCode: 200, Status: "200", Proto: "HTTP/1.1", ProtoMajor: 1, ProtoMinor: 1,
			Header: http.Header{"Content-Type": []string{"application/json"}}, Body: io.NopCloser(bytes.NewReader(b)), ContentLength: int64(len(b)), Request: req}
	}
	json.Unmarshal(body, &rq)
	rpcErr := func(msg string) *http.Response {
		return mk(map[string]interface{}{"jsonrpc": "2.0", "id": rq.ID, "error": map[string]interface{}{"code": -32000, "message": msg}})
	}
	if rq.Method != "eth_call" || len(rq.Params) < 1 {
		return rpcErr("unsupported"), nil
	}
	var args map[string]interface{}
	json.Unmarshal(rq.Params[0], &args)
	data, _ := args["data"].(string)
	if data == "" {
		data, _ = args["input"].(string)
	}
	raw, _ := hexutil.Decode(data)
	if len(raw) < 4 {
		return rpcErr("execution reverted"), nil
	}
	m, err := gstABI.MethodById(raw[:4])
	if err != nil {
		return rpcErr("execution reverted"), nil
	}
	c.mu.Lock()
	defer c.mu.Unlock()
	var out []byte
	switch m.Name {
	case "getCurrentGuardianSetIndex":
		out, _ = m.Outputs.Pack(uint32(len(c.sets) - 1))
	case "getGuardianSet":
		in, err := m.Inputs.Unpack(raw[4:])
		if err != nil {
			return rpcErr("execution reverted"), nil
		}
		idx := in[0].(uint32)
		gs := ethAbiPkg.StructsGuardianSet{Keys: []ethCommon2.Address{}}
		if int(idx) < len(c.sets) {
			gs.Keys = c.sets[idx]
		}
		out, _ = m.Outputs.Pack(gs)
	default:
		return rpcErr("execution reverted"), nil
	}
	return mk(map[string]interface{}{"jsonrpc": "2.0", "id": rq.ID, "result": hexutil.Encode(out)}), nil
}

func (c *gstChain) add(n int) {
	c.mu.Lock()
	k := len(c.sets)
	var s []ethCommon2.Address
	for i := 0; i < 1+n%4; i++ {
		s = append(s, keyAddr(10*k+i))
	}
	c.sets = append(c.sets, s)
	c.mu.Unlock()
}

func (c *gstChain) set(i int) []ethCommon2.Address {
	c.mu.Lock()
	defer c.mu.Unlock()
	if i < 0 || i >= len(c.sets) {
		return nil
	}
	return c.sets[i]
}

// ---------------------------------------------------------------------------------------------

type gstHarness struct{}

func (gstHarness) Name() string { return "gstsim" }

func (gstHarness) Gen(seed uint64, prop, tier string) *simkit.Program {
	r := simkit.NewRng(seed, "gstsim")
	p := &simkit.Program{Cfg: map[string]int64{}}
	add := func(op string, a, b int64) { p.Steps = append(p.Steps, simkit.Step{Op: op, A: a, B: b}) }
	p.Cfg["initial"] = int64(r.Range(1, 3))
	nt := r.Range(2, 4)
	appends := 0
	for i := 0; i < nt; i++ {
		switch r.Pick(4, 2, 3) {
		case 0:
			add("lookup", int64(r.Intn(int(p.Cfg["initial"])+3)), 0)
		case 1:
			add("current", 0, 0)
		case 2:
			add("append", int64(r.Range(1, 2)), int64(r.Intn(8)))
			appends++
		}
	}
	if appends == 0 {
		add("append", 1, int64(r.Intn(8)))
	}
	for i := 0; i < 10+r.Intn(60); i++ {
		add("run", int64(r.Intn(8)), 0)
	}
	return p
}

func (gstHarness) Exec(p *simkit.Program) *simkit.Result {
	res := &simkit.Result{Seed: p.Seed, Prop: p.Prop, Steps: len(p.Steps)}
	log := &simkit.Log{}
	stats := simkit.NewStats()
	violate := func(key, format string, a ...interface{}) {
		for _, v := range res.Violations {
			if v.Key == key {
				return
			}
		}
		res.Violations = append(res.Violations, simkit.Violation{Prop: "C19", Key: key, Step: -1, Detail: fmt.Sprintf(format, a...)})
	}
	chain := &gstChain{}
	old := http.DefaultTransport
	http.DefaultTransport = chain
	defer func() { http.DefaultTransport = old }()
	initial := int(p.C("initial", 1))
	if initial < 1 {
		initial = 1
	}
	var known []*common.GuardianSet
	for i := 0; i < initial; i++ {
		chain.add(i)
		known = append(known, &common.GuardianSet{Index: uint32(i), Keys: chain.set(i)})
	}
	gsC := make(chan *common.GuardianSet, 64)
	gs := NewGuardianSets(known, "http://evm.sim:8545", zap.NewNop(), time.Hour, ethCommon2.HexToAddress("0xc04e"), gsC)
	ctx := context.Background()
	s := &scheduler{held: map[*sync.Mutex]*task{}}
	sched = s
	defer func() { sched = nil }()
	var tasks []*task
	check := func(g *common.GuardianSet, i int, what string) string {
		want := chain.set(i)
		if g == nil {
			return fmt.Sprintf("%s returned nil", what)
		}
		if int(g.Index) != i {
			return fmt.Sprintf("%s returned the set with index %d", what, g.Index)
		}
		if len(g.Keys) != len(want) {
			return fmt.Sprintf("%s returned %d keys, the chain's set %d has %d", what, len(g.Keys), i, len(want))
		}
		for k := range want {
			if g.Keys[k] != want[k] {
				return fmt.Sprintf("%s returned other keys than the chain's set %d", what, i)
			}
		}
		return ""
	}
	for i, st := range p.Steps {
		st := st
		switch st.Op {
		case "lookup":
			idx := int(st.A)
			t := &task{name: fmt.Sprintf("lookup%d#%d", idx, i)}
			existedBefore := chain.set(idx) != nil
			t.fn = func() string {
				existed := existedBefore
				if !raceBuild {
					existed = chain.set(idx) != nil
				}
				g, err := gs.GetGuardianSet(ctx, idx)
				if raceBuild {
					// race tier: only the call runs concurrently; the result is judged afterwards so that
					// the harness's own locking (simulated chain) does not order the tasks
					t.verify = func() string {
						if err != nil {
							if existed {
								return fmt.Sprintf("GetGuardianSet(%d) failed although the chain had that set before the call: %v", idx, err)
							}
							return ""
						}
						if chain.set(idx) == nil {
							return fmt.Sprintf("GetGuardianSet(%d) returned a set for an index that does not exist on chain", idx)
						}
						return check(g, idx, fmt.Sprintf("GetGuardianSet(%d)", idx))
					}
					return ""
				}
				if err != nil {
					if existed {
						return fmt.Sprintf("GetGuardianSet(%d) failed although the chain had that set before the call: %v", idx, err)
					}
					return ""
				}
				if chain.set(idx) == nil {
					return fmt.Sprintf("GetGuardianSet(%d) returned a set for an index that does not exist on chain", idx)
				}
				return check(g, idx, fmt.Sprintf("GetGuardianSet(%d)", idx))
			}
			tasks = append(tasks, t)
		case "current":
			t := &task{name: fmt.Sprintf("current#%d", i)}
			t.fn = func() string {
				g := gs.GetCurrentGuardianSet()
				if raceBuild {
					t.verify = func() string {
						if g == nil {
							return "GetCurrentGuardianSet returned nil"
						}
						return check(g, int(g.Index), "GetCurrentGuardianSet")
					}
					return ""
				}
				if g == nil {
					return "GetCurrentGuardianSet returned nil"
				}
				return check(g, int(g.Index), "GetCurrentGuardianSet")
			}
			tasks = append(tasks, t)
		case "append":
			n := int(st.A)
			t := &task{name: fmt.Sprintf("append%d#%d", n, i)}
			t.fn = func() string {
				for k := 0; k < n; k++ {
					chain.add(int(st.B) + k)
				}
				// what the update ticker does
				sets, err := GetGuardianSetsFromChain(ctx, gs.ethRpcUrl, gs.ethGovernanceAddress, gs.GetCurrentGuardianSet().Index+1)
				if err != nil {
					return ""
				}
				gs.updateGuardianSets(sets)
				return ""
			}
			tasks = append(tasks, t)
		}
	}
	if raceBuild {
		// race-detector tier: the unrewritten methods, tasks really concurrent, no scheduler
		sched = nil
		var wg sync.WaitGroup
		for _, t := range tasks {
			wg.Add(1)
			go func(t *task) {
				defer wg.Done()
				defer func() {
					if r := recover(); r != nil {
						t.panicked = fmt.Sprint(r)
					}
				}()
				t.result = t.fn()
			}(t)
		}
		wg.Wait()
		for _, t := range tasks {
			t.done = true
			if t.verify != nil && t.panicked == "" {
				t.result = t.verify()
			}
		}
	}
	for _, t := range tasks {
		if !raceBuild {
			s.start(t)
		}
	}
	runnable := func() []*task {
		var out []*task
		for _, t := range tasks {
			if !t.done {
				out = append(out, t)
			}
		}
		return out
	}
	guard := 0
	stepOne := func(rank int) bool {
		rs := runnable()
		if len(rs) == 0 {
			return false
		}
		// prefer tasks that are not waiting for the lock; if all wait, it is a deadlock
		var free []*task
		for _, t := range rs {
			if !t.blocked || s.held == nil {
				free = append(free, t)
			}
		}
		cand := rs
		if len(free) > 0 {
			cand = free
		}
		t := cand[rank%len(cand)]
		s.step(t)
		guard++
		return true
	}
	for _, st := range p.Steps {
		if st.Op == "run" {
			if !stepOne(int(st.A)) {
				break
			}
		}
	}
	for guard < 5000 && stepOne(0) {
	}
	if len(runnable()) > 0 {
		violate("guardian-set-tasks-stuck", "tasks did not finish: %v", s.trace[len(s.trace)-5:])
	}
	// afterwards, sequentially: one more set appears on chain, and every index must still return
	// the chain's set with that index (a lost or duplicated append during the interleaving shows here)
	if len(runnable()) == 0 {
		if sched != nil {
			sched.cur = nil
		}
		chain.add(99)
		chain.mu.Lock()
		nsets := len(chain.sets)
		chain.mu.Unlock()
		final := &task{name: "final-sweep", done: true}
		func() {
			defer func() {
				if r := recover(); r != nil {
					final.panicked = fmt.Sprint(r)
				}
			}()
			for i := nsets - 1; i >= 0; i-- {
				g, err := gs.GetGuardianSet(ctx, i)
				if err != nil {
					final.result = fmt.Sprintf("GetGuardianSet(%d) failed after the interleaving: %v", i, err)
					return
				}
				if msg := check(g, i, fmt.Sprintf("GetGuardianSet(%d) after the interleaving", i)); msg != "" {
					final.result = msg
					return
				}
			}
		}()
		tasks = append(tasks, final)
	}
	for _, t := range tasks {
		if t.panicked != "" {
			violate("guardian-set-lookup-panic", "%s panicked while sets were being appended: %s (last yield %s)", t.name, t.panicked, t.at)
		} else if t.result != "" {
			key := "wrong-guardian-set-returned"
			if strings.Contains(t.result, "failed although") {
				key = "guardian-set-lookup-failed"
			}
			violate(key, "%s: %s", t.name, t.result)
		}
		log.Add("%s panicked=%v result=%q", t.name, t.panicked != "", t.result)
	}
	log.Add("trace %s", strings.Join(s.trace, " "))
	log.Cut("run")
	stats.ProbeN("scheduler-steps", int64(len(s.trace)))
	stats.ProbeN("tasks", int64(len(tasks)))
	stats.Fault("append-during-lookup")
	res.Faults, res.Probes = stats.Faults, stats.Probes
	res.Log, res.LogHash = log.Lines(), log.Hash()
	res.NonTrivial = len(tasks) >= 2 && len(s.trace) > 8
	_ = strconv.Itoa
	return res
}

func TestVerifSim(t *testing.T) {
	if os.Getenv("VERIF_OUT") == "" {
		t.Skip("verification harness: run through /verif/bin/check")
	}
	if msg := simkit.Main(gstHarness{}); msg != "" {
		fmt.Println("HARNESS-TROUBLE: " + msg)
		t.Fatal(msg)
	}
}
