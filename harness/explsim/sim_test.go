//go:build verif

// explsim (C19, ingestion half): the explorer's real gossip consumer (vaaGossipConsumer.Push,
// verifyVAA), GuardianSets (with its update ticker goroutine) and Deduplicator on the production
// ristretto/gocache store, inside a synctest bubble. Simulated: the EVM node that serves the
// guardian-set history (JSON-RPC over the http.DefaultTransport seam; a non-existent index
// returns an empty set, as the Solidity getter does), the gossip side (scripted VAAs), the
// persistence queue's consumer, the clock.
package processor

import (
	"bytes"
	"context"
	"crypto/ecdsa"
	"encoding/json"
	"fmt"
	"io"
	"net/http"
	"os"
	"strconv"
	"strings"
	"sync"
	"testing"
	"testing/synctest"
	"time"

	"github.com/alephium/wormhole-fork/explorer-backend/deduplicator"
	"github.com/alephium/wormhole-fork/explorer-backend/guardiansets"
	"github.com/alephium/wormhole-fork/node/pkg/common"
	ethAbiPkg "github.com/alephium/wormhole-fork/node/pkg/ethereum/abi"
	"github.com/alephium/wormhole-fork/node/pkg/vaa"
	"github.com/dgraph-io/ristretto"
	"github.com/eko/gocache/v3/cache"
	"github.com/eko/gocache/v3/store"
	gethAbi "github.com/ethereum/go-ethereum/accounts/abi"
	ethCommon2 "github.com/ethereum/go-ethereum/common"
	"github.com/ethereum/go-ethereum/common/hexutil"
	"github.com/ethereum/go-ethereum/crypto"
	"go.uber.org/zap"

	"verif.local/simkit"
	"verif.local/simkit/ref"
)

const nKeys = 24

var (
	simKeys   [nKeys]*ecdsa.PrivateKey
	simAddrs  [nKeys]ethCommon2.Address
	parsedABI gethAbi.ABI
	govAddr   = ethCommon2.HexToAddress("0x00000000000000000000000000000000000c04e1")
)

func init() {
	ref.Keccak256 = crypto.Keccak256
	ref.Recover = func(hash, sig []byte) ([]byte, error) {
		pk, err := crypto.Ecrecover(hash, sig)
		if err != nil {
			return nil, err
		}
		return crypto.Keccak256(pk[1:])[12:], nil
	}
	for i := 0; i < nKeys; i++ {
		k, err := crypto.ToECDSA(crypto.Keccak256([]byte("verif-guardian-key"), []byte{byte(i)}))
		if err != nil {
			panic(err)
		}
		simKeys[i], simAddrs[i] = k, crypto.PubkeyToAddress(k.PublicKey)
	}
	a, err := gethAbi.JSON(strings.NewReader(ethAbiPkg.AbiABI))
	if err != nil {
		panic(err)
	}
	parsedABI = a
}

type explSim struct {
	mu     sync.Mutex
	res    *simkit.Result
	log    *simkit.Log
	stats  *simkit.Stats
	chain  [][]int // guardian-set history on chain: index -> key indices
	faults int     // number of upcoming eth_calls that fail ...
	skip   int     // ... after this many have succeeded first
	calls  int
	step   int
	start  time.Time
}

func (s *explSim) violate(key, format string, a ...interface{}) {
	for _, v := range s.res.Violations {
		if v.Key == key {
			return
		}
	}
	s.res.Violations = append(s.res.Violations, simkit.Violation{Prop: "C19", Key: key, Step: s.step, Detail: fmt.Sprintf(format, a...)})
	s.log.Add("VIOLATION %s", key)
}

// RoundTrip is the simulated EVM node (JSON-RPC over HTTP).
func (s *explSim) RoundTrip(req *http.Request) (*http.Response, error) {
	body, _ := io.ReadAll(req.Body)
	req.Body.Close()
	var rq struct {
		ID     json.RawMessage   `json:"id"`
		Method string            `json:"method"`
		Params []json.RawMessage `json:"params"`
	}
	mk := func(code int, v interface{}) *http.Response {
		b, _ := json.Marshal(v)
		return &http.Response{StatusCode: code, Status: strconv.Itoa(code), Proto: "HTTP/1.1", ProtoMajor: 1, ProtoMinor: 1,
			Header: http.Header{"Content-Type": []string{"application/json"}}, Body: io.NopCloser(bytes.NewReader(b)), ContentLength: int64(len(b)), Request: req}
	}
	if err := json.Unmarshal(body, &rq); err != nil {
		return mk(400, map[string]string{"error": "bad request"}), nil
	}
	rpcErr := func(msg string) *http.Response {
		return mk(200, map[string]interface{}{"jsonrpc": "2.0", "id": rq.ID, "error": map[string]interface{}{"code": -32000, "message": msg}})
	}
	s.mu.Lock()
	defer s.mu.Unlock()
	s.calls++
	if rq.Method != "eth_call" || len(rq.Params) < 1 {
		return rpcErr("method not supported by the simulated node: " + rq.Method), nil
	}
	if s.faults > 0 && s.skip > 0 {
		s.skip--
	} else if s.faults > 0 {
		s.faults--
		s.stats.Fault("rpc-error")
		return mk(500, map[string]string{"error": "injected"}), nil
	}
	var args map[string]interface{}
	json.Unmarshal(rq.Params[0], &args)
	data, _ := args["data"].(string)
	if data == "" {
		data, _ = args["input"].(string)
	}
	raw, _ := hexutil.Decode(data)
	if len(raw) < 4 {
		return rpcErr("execution reverted"), nil
	}
	m, err := parsedABI.MethodById(raw[:4])
	if err != nil {
		return rpcErr("execution reverted"), nil
	}
	var out []byte
	switch m.Name {
	case "getCurrentGuardianSetIndex":
		out, _ = m.Outputs.Pack(uint32(len(s.chain) - 1))
	case "getGuardianSet":
		in, err := m.Inputs.Unpack(raw[4:])
		if err != nil || len(in) != 1 {
			return rpcErr("execution reverted"), nil
		}
		idx := in[0].(uint32)
		gs := ethAbiPkg.StructsGuardianSet{Keys: []ethCommon2.Address{}}
		if int(idx) < len(s.chain) {
			for _, k := range s.chain[idx] {
				gs.Keys = append(gs.Keys, simAddrs[k])
			}
		} else {
			s.stats.Fault("chain-asked-for-nonexistent-set")
		}
		out, _ = m.Outputs.Pack(gs)
	default:
		return rpcErr("execution reverted"), nil
	}
	return mk(200, map[string]interface{}{"jsonrpc": "2.0", "id": rq.ID, "result": hexutil.Encode(out)}), nil
}

func (s *explSim) chainSet(i int) [][]byte {
	if i < 0 || i >= len(s.chain) {
		return nil
	}
	var out [][]byte
	for _, k := range s.chain[i] {
		out = append(out, simAddrs[k].Bytes())
	}
	return out
}

func parseKeys(x string) []int {
	var out []int
	seen := map[int]bool{}
	for _, f := range strings.Split(x, ",") {
		if n, err := strconv.Atoi(strings.TrimSpace(f)); err == nil && n >= 0 && n < nKeys && !seen[n] {
			seen[n] = true
			out = append(out, n)
		}
	}
	return out
}

// buildVAA: message id A, named index B (absolute), variant C, signer set index D (-1: same as named).
func (s *explSim) buildVAA(st simkit.Step) ([]byte, uint32) {
	named := uint32(st.B)
	signIdx := int(st.D)
	if signIdx < 0 || signIdx >= len(s.chain) {
		signIdx = int(named)
	}
	var keys []int
	if signIdx < len(s.chain) {
		keys = s.chain[signIdx]
	} else {
		// a set that does not exist on chain: the adversary picks its own keys
		keys = []int{int(st.A) % nKeys, (int(st.A) + 1) % nKeys}
	}
	body := ref.Body{TimestampSec: uint32(1_700_000_000 + st.A), Nonce: uint32(st.A), EmitterChain: 255, TargetChain: 2, Emitter: [32]byte{0xaa, byte(st.A >> 8)},
		Sequence: uint64(st.A), Consistency: 1, Payload: []byte(fmt.Sprintf("message-%d", st.A))}
	dig := ref.Digest(ref.EncodeBody(&body))
	n := len(keys)
	cnt := ref.Quorum(n)
	if cnt > n {
		cnt = n
	}
	v := &ref.VAA{Version: 1, SetIndex: named, Body: body}
	sign := func(k int) (sg [65]byte) {
		b, err := crypto.Sign(dig, simKeys[k])
		if err != nil {
			panic(err)
		}
		copy(sg[:], b)
		return
	}
	switch st.C {
	case 1: // under-signed
		cnt--
		s.stats.Fault("vaa-under-signed")
	}
	for i := 0; i < cnt && i < n; i++ {
		v.Sigs = append(v.Sigs, ref.Sig{Index: uint8(i), Sig: sign(keys[i])})
	}
	switch st.C {
	case 2: // one signature by a key outside the set
		if len(v.Sigs) > 0 {
			out := 0
			for k := 0; k < nKeys; k++ {
				in := false
				for _, x := range keys {
					if x == k {
						in = true
					}
				}
				if !in {
					out = k
					break
				}
			}
			v.Sigs[len(v.Sigs)-1].Sig = sign(out)
			s.stats.Fault("vaa-wrong-signer")
		}
	case 3: // duplicated signer to reach the count
		if len(v.Sigs) > 1 {
			v.Sigs[len(v.Sigs)-1] = v.Sigs[0]
			v.Sigs[len(v.Sigs)-1].Index = uint8(len(v.Sigs) - 1)
			s.stats.Fault("vaa-duplicate-signer")
		}
	case 4: // body altered after signing
		v.Body.Nonce ^= 1
		s.stats.Fault("vaa-body-altered")
	}
	if signIdx != int(named) {
		s.stats.Fault("vaa-signed-by-other-set-than-named")
	}
	return ref.Encode(v), named
}

type explHarness struct{ t *testing.T }

func (explHarness) Name() string { return "explsim" }

func (explHarness) Gen(seed uint64, prop, tier string) *simkit.Program {
	r := simkit.NewRng(seed, "explsim")
	p := &simkit.Program{Cfg: map[string]int64{}}
	add := func(op string, a, b, c, d int64, x string) {
		p.Steps = append(p.Steps, simkit.Step{Op: op, A: a, B: b, C: c, D: d, X: x})
	}
	xs := func(k []int) string {
		s := make([]string, len(k))
		for i, v := range k {
			s[i] = strconv.Itoa(v)
		}
		return strings.Join(s, ",")
	}
	p.Cfg["qcap"] = int64([]int{1, 2, 4, 256}[r.Intn(4)])
	p.Cfg["update_s"] = int64([]int{5, 15, 60}[r.Intn(3)])
	nsets := 1 + r.Intn(3)
	for i := 0; i < nsets; i++ {
		add("chainset", 0, 0, 0, 0, xs(r.Perm(nKeys)[:r.Range(1, 7)]))
	}
	add("boot", 0, 0, 0, 0, "") // the explorer starts with the history known so far
	cur := nsets - 1
	msg := int64(0)
	n := 8 + r.Intn(30)
	for i := 0; i < n; i++ {
		switch r.Pick(10, 3, 3, 2, 2, 1, 2) {
		case 0:
			msg++
			id := msg
			if r.P(0.3) && msg > 1 {
				id = int64(1 + r.Intn(int(msg))) // a copy of an earlier message
			}
			named := int64(r.Intn(cur + 1))
			if r.P(0.5) {
				named = int64(cur)
			}
			variant := int64(0)
			signer := int64(-1)
			switch r.Pick(6, 1, 1, 1, 1, 2, 2, 1) {
			case 1, 2, 3, 4:
				variant = int64(r.Range(1, 4))
			case 5: // valid for set j but naming i
				signer = int64(r.Intn(cur + 1))
			case 6: // names the next set before (or just after) it exists
				named = int64(cur + 1)
			case 7: // far future
				named = int64(cur + r.Range(2, 30))
			}
			add("push", id, named, variant, signer, "")
		case 1:
			cur++
			add("chainset", 0, 0, 0, 0, xs(r.Perm(nKeys)[:r.Range(1, 7)]))
			if r.P(0.6) {
				// a valid VAA of the brand-new set right away
				msg++
				add("push", msg, int64(cur), 0, -1, "")
			}
		case 2:
			add("adv", int64(r.Range(1, 70))*1000, 0, 0, 0, "")
		case 3:
			add("drain", int64(r.Range(1, 4)), 0, 0, 0, "")
		case 4:
			add("fill", 0, 0, 0, 0, "")
		case 5:
			add("rpcfault", int64(r.Range(1, 3)), 0, 0, 0, "")
		case 6:
			// the explorer has to catch up over several new sets and one call in the middle fails
			k := r.Range(2, 4)
			for j := 0; j < k; j++ {
				cur++
				add("chainset", 0, 0, 0, 0, xs(r.Perm(nKeys)[:r.Range(1, 7)]))
			}
			add("rpcfault", 1, int64(r.Range(1, k)), 0, 0, "")
			msg++
			add("push", msg, int64(cur), 0, -1, "")
			msg++
			add("push", msg, int64(cur), 0, -1, "")
		}
	}
	// finally: every set of the chain must be usable
	add("drain", 1000, 0, 0, 0, "")
	for i := 0; i <= cur; i++ {
		msg++
		add("push", msg, int64(i), 0, -1, "")
		add("drain", 1000, 0, 0, 0, "")
	}
	return p
}

func (h explHarness) Exec(p *simkit.Program) *simkit.Result {
	res := &simkit.Result{Seed: p.Seed, Prop: p.Prop, Steps: len(p.Steps)}
	s := &explSim{res: res, log: &simkit.Log{}, stats: simkit.NewStats()}
	old := http.DefaultTransport
	http.DefaultTransport = s
	defer func() { http.DefaultTransport = old }()
	accepted, rejected, deduped, fullDrops := 0, 0, 0, 0
	body := func(t *testing.T) {
		s.start = time.Now()
		ctx, cancel := context.WithCancel(context.Background())
		defer cancel()
		var consumer *vaaGossipConsumer
		var gsets *guardiansets.GuardianSets
		var queue chan *Message
		seenAt := map[string]time.Time{} // message id -> time of the successful hand-off
		rc, err := ristretto.NewCache(&ristretto.Config{NumCounters: 10000, MaxCost: 10 * (1 << 20), BufferItems: 64})
		if err != nil {
			res.HarnessErr = err.Error()
			return
		}
		defer rc.Close()
		for i, st := range p.Steps {
			s.step = i
			switch st.Op {
			case "chainset":
				s.mu.Lock()
				s.chain = append(s.chain, parseKeys(st.X))
				s.mu.Unlock()
				s.stats.Fault("guardian-set-appended-on-chain")
			case "boot":
				if consumer != nil || len(s.chain) == 0 {
					break
				}
				var known []*common.GuardianSet
				for idx, ks := range s.chain {
					g := &common.GuardianSet{Index: uint32(idx)}
					for _, k := range ks {
						g.Keys = append(g.Keys, simAddrs[k])
					}
					known = append(known, g)
				}
				gsC := make(chan *common.GuardianSet, 1)
				go func() { // main.go's loop that consumes guardian-set updates
					for {
						select {
						case <-gsC:
						case <-ctx.Done():
							return
						}
					}
				}()
				gsets = guardiansets.NewGuardianSets(known, "http://evm.sim:8545", zap.NewNop(), time.Duration(p.C("update_s", 15))*time.Second, govAddr, gsC)
				gsets.UpdateGuardianSet(ctx)
				queue = make(chan *Message, int(p.C("qcap", 256)))
				dd := deduplicator.New(cache.New[bool](store.NewRistretto(rc)), zap.NewNop())
				consumer = NewVAAGossipConsumer(gsets, dd, queue, zap.NewNop())
			case "push":
				if consumer == nil {
					break
				}
				raw, named := s.buildVAA(st)
				v, err := vaa.Unmarshal(raw)
				if err != nil {
					res.HarnessErr = "harness built an undecodable VAA: " + err.Error()
					return
				}
				s.mu.Lock()
				truth := s.chainSet(int(named))
				s.mu.Unlock()
				verr := fmt.Errorf("set %d does not exist on chain", named)
				if truth != nil {
					verr = ref.Verify(raw, truth)
				}
				before := len(queue)
				room := before < cap(queue)
				s.mu.Lock()
				faultsBefore := s.faults
				s.mu.Unlock()
				var perr error
				func() {
					defer func() {
						if r := recover(); r != nil {
							s.violate("consumer-panic", "Push panicked: %v", r)
							perr = fmt.Errorf("panic")
						}
					}()
					perr = consumer.Push(ctx, v, raw)
				}()
				synctest.Wait()
				queued := len(queue) == before+1
				id := v.MessageID()
				last, seen := seenAt[id]
				age := time.Since(last)
				switch {
				case queued && verr != nil:
					s.violate("unverified-vaa-queued", "VAA %s naming set %d was queued although it fails verification against that set: %v", id, named, verr)
				case queued:
					accepted++
					if seen && age < 24*time.Second {
						s.violate("duplicate-queued-within-window", "VAA %s queued again %v after it was handed over", id, age)
					}
					seenAt[id] = time.Now()
					// the queued message must be this VAA
					n := len(queue)
					var tail *Message
					for k := 0; k < n; k++ {
						m := <-queue
						queue <- m
						tail = m
					}
					if tail == nil || !bytes.Equal(tail.serialized, raw) {
						s.violate("queued-message-altered", "the queued message is not the pushed VAA")
					}
				case verr != nil:
					rejected++
				case seen && age < 36*time.Second:
					deduped++ // within (or at the edge of) the deduplication window
				case !room:
					fullDrops++
					s.stats.Fault("persistence-queue-full")
					if perr == nil {
						s.violate("full-queue-drop-reported-as-success", "hand-off failed (queue full) but Push returned nil")
					}
				case func() bool { s.mu.Lock(); defer s.mu.Unlock(); return s.faults < faultsBefore }():
					// the guardian-set fetch hit an injected RPC error: not ingesting is legitimate,
					// and nothing may have been marked as seen
					s.stats.Probe("push-failed-on-rpc-error")
				default:
					s.violate("valid-vaa-not-ingested", "VAA %s is correctly signed by chain set %d (%d keys), was not seen before and the queue has room, but was not queued: %v", id, named, len(truth), perr)
				}
				s.log.Add("push %s named=%d ok=%v queued=%v", id, named, verr == nil, queued)
			case "adv":
				time.Sleep(time.Duration(st.A) * time.Millisecond)
				synctest.Wait()
			case "drain":
				for k := int64(0); k < st.A && queue != nil; k++ {
					select {
					case <-queue:
					default:
					}
				}
			case "fill":
				for queue != nil && len(queue) < cap(queue) {
					queue <- &Message{}
				}
			case "rpcfault":
				s.mu.Lock()
				s.faults += int(st.A)
				s.skip = int(st.B)
				s.mu.Unlock()
			}
			s.log.Cut(fmt.Sprintf("%d %s", i, st))
			if len(res.Violations) > 0 {
				break
			}
		}
		// the set returned for index i must be the chain's set i
		if gsets != nil && len(res.Violations) == 0 {
			s.mu.Lock()
			s.faults = 0
			n := len(s.chain)
			s.mu.Unlock()
			for i := 0; i < n; i++ {
				var g *common.GuardianSet
				var err error
				func() {
					defer func() {
						if r := recover(); r != nil {
							err = fmt.Errorf("panic: %v", r)
						}
					}()
					g, err = gsets.GetGuardianSet(ctx, i)
				}()
				if err != nil {
					s.violate("guardian-set-lookup-failed", "GetGuardianSet(%d) of %d chain sets: %v", i, n, err)
					break
				}
				want := s.chainSet(i)
				ok := g != nil && int(g.Index) == i && len(g.Keys) == len(want)
				for k := 0; ok && k < len(want); k++ {
					ok = bytes.Equal(g.Keys[k].Bytes(), want[k])
				}
				if !ok {
					s.violate("wrong-guardian-set-returned", "GetGuardianSet(%d) returned index %v with %d keys, the chain's set %d has %d keys", i, g.Index, len(g.Keys), i, len(want))
					break
				}
			}
		}
		res.SimNs = int64(time.Since(s.start))
		cancel()
		synctest.Wait()
	}
	func() {
		defer func() {
			if r := recover(); r != nil {
				if strings.Contains(fmt.Sprint(r), "deadlock") {
					return
				}
				res.HarnessErr = "bubble: " + fmt.Sprint(r)
			}
		}()
		synctest.Test(h.t, body)
	}()
	s.stats.ProbeN("accepted", int64(accepted))
	s.stats.ProbeN("rejected", int64(rejected))
	s.stats.ProbeN("deduplicated", int64(deduped))
	s.stats.ProbeN("queue-full-drops", int64(fullDrops))
	s.stats.ProbeN("eth-calls", int64(s.calls))
	res.Faults, res.Probes = s.stats.Faults, s.stats.Probes
	res.Log, res.LogHash = s.log.Lines(), s.log.Hash()
	res.NonTrivial = accepted > 0 && rejected > 0
	return res
}

func TestVerifSim(t *testing.T) {
	if os.Getenv("VERIF_OUT") == "" {
		t.Skip("verification harness: run through /verif/bin/check")
	}
	if msg := simkit.Main(explHarness{t}); msg != "" {
		fmt.Println("HARNESS-TROUBLE: " + msg)
		t.Fatal(msg)
	}
}
