//go:build verif

// reobssim (C17): the real re-observation dispatcher (handleReobservationRequests with the
// production clock.New()) and common.PostObservationRequest inside a synctest bubble.
// Simulated: the gossip side feeding obsvReqC, the watchers draining (or not) their queues,
// the clock. Faults: full watcher queues, unknown chains, long clock gaps, requests straddling
// the purge ticker.
package guardiand

import (
	"bytes"
	"context"
	"fmt"
	"os"
	"runtime"
	"strings"
	"sync"
	"sync/atomic"
	"testing"
	"testing/synctest"
	"time"

	"github.com/alephium/wormhole-fork/node/pkg/common"
	gossipv1 "github.com/alephium/wormhole-fork/node/pkg/proto/gossip/v1"
	"github.com/alephium/wormhole-fork/node/pkg/vaa"
	"github.com/benbjohnson/clock"
	"go.uber.org/zap"

	"verif.local/simkit"
)

var reobsChains = []uint32{2, 4, 255, 10, 0} // the last two have no watcher

func reobsTx(i int64) []byte {
	if i < 0 {
		i = -i
	}
	switch i % 8 {
	case 4: // 33 bytes whose last 32 are transaction 0
		return append([]byte{0x77}, bytes.Repeat([]byte{0x10}, 32)...)
	case 5: // 31 bytes
		return bytes.Repeat([]byte{0x11}, 31)
	case 6: // 32 bytes: transaction 5 with a leading zero
		return append([]byte{0}, bytes.Repeat([]byte{0x11}, 31)...)
	case 7:
		return []byte{0xab}
	}
	return bytes.Repeat([]byte{byte(0x10 + i%4)}, 32)
}

type reobsHarness struct{ t *testing.T }

func (reobsHarness) Name() string { return "reobssim" }

func (reobsHarness) Gen(seed uint64, prop, tier string) *simkit.Program {
	r := simkit.NewRng(seed, "reobssim")
	p := &simkit.Program{Cfg: map[string]int64{}}
	p.Cfg["qcap"] = int64([]int{1, 2, 3, 25}[r.Intn(4)])
	add := func(op string, a, b, c int64) { p.Steps = append(p.Steps, simkit.Step{Op: op, A: a, B: b, C: c}) }
	sec, min := int64(time.Second), int64(time.Minute)
	n := 10 + r.Intn(50)
	hot := [2]int64{int64(r.Intn(3)), int64(r.Intn(4))}
	for i := 0; i < n; i++ {
		switch r.Pick(10, 6, 3, 2, 1) {
		case 0:
			c, tx := int64(r.Intn(5)), int64(r.Intn(4))
			if r.P(0.25) {
				tx = int64(4 + r.Intn(4)) // ids of unusual length; distinct byte strings are distinct transactions
			}
			if r.P(0.6) {
				c, tx = hot[0], hot[1]
			}
			add("req", c, tx, 0)
		case 1:
			switch r.Pick(3, 3, 2, 2, 1) {
			case 0:
				add("adv", int64(r.Range(1, 120))*sec, 0, 0)
			case 1:
				add("adv", int64(r.Range(2, 12))*min+int64(r.Intn(3))-1, 0, 0)
			case 2: // land exactly around the statement's eleven minutes
				add("adv", 11*min-1+int64(r.Intn(3)), 0, 0)
			case 3:
				add("adv", 7*min-1+int64(r.Intn(3)), 0, 0)
			case 4:
				add("adv", int64(r.Range(18, 200))*min, 0, 0)
			}
		case 2:
			add("drain", int64(r.Intn(3)), int64(1+r.Intn(30)), 0)
		case 3:
			add("fill", int64(r.Intn(3)), 0, 0)
		case 4:
			add("post", int64(r.Intn(4)), int64(r.Intn(3)), 0)
		}
		if i == n/2 && r.P(0.04) {
			add("flood", int64(r.Intn(3)), int64(r.Intn(200)), 0)
		}
	}
	return p
}

func txHead(tx []byte, n int) []byte {
	if len(tx) < n {
		return tx
	}
	return tx[:n]
}

type fwdKey struct {
	chain uint32
	tx    string
}

func (h reobsHarness) Exec(p *simkit.Program) *simkit.Result {
	res := &simkit.Result{Seed: p.Seed, Prop: p.Prop, Steps: len(p.Steps)}
	log := &simkit.Log{}
	stats := simkit.NewStats()
	step := 0
	violate := func(key, format string, a ...interface{}) {
		for _, v := range res.Violations {
			if v.Key == key {
				return
			}
		}
		res.Violations = append(res.Violations, simkit.Violation{Prop: "C17", Key: key, Step: step, Detail: fmt.Sprintf(format, a...)})
	}
	qcap := int(p.C("qcap", 25))
	if qcap < 1 {
		qcap = 1
	}
	forwards, suppressed, dropsFull, dropsUnknown := 0, 0, 0, 0
	blocked := false
	body := func(t *testing.T) {
		start := time.Now()
		ctx, cancel := context.WithCancel(context.Background())
		obsvReqC := make(chan *gossipv1.ObservationRequest, common.ObsvReqChannelSize)
		queues := map[vaa.ChainID]chan *gossipv1.ObservationRequest{}
		for _, c := range reobsChains[:3] {
			queues[vaa.ChainID(c)] = make(chan *gossipv1.ObservationRequest, qcap)
		}
		done := make(chan struct{})
		go func() {
			defer close(done)
			handleReobservationRequests(ctx, clock.New(), zap.NewNop(), obsvReqC, queues)
		}()
		synctest.Wait()
		lastFwd := map[fwdKey]time.Time{}
		qlen := func() map[uint32]int {
			m := map[uint32]int{}
			for c, q := range queues {
				m[uint32(c)] = len(q)
			}
			return m
		}
		doReq := func(chain uint32, tx []byte) {
			key := fwdKey{chain, string(tx)}
			before := qlen()
			q, known := queues[vaa.ChainID(chain)]
			full := known && len(q) == cap(q)
			req := &gossipv1.ObservationRequest{ChainId: chain, TxHash: tx}
			select {
			case obsvReqC <- req:
			default:
				violate("dispatcher-inbox-full", "the dispatcher inbox filled up: it is not consuming")
				blocked = true
			}
			synctest.Wait()
			if len(obsvReqC) != 0 {
				violate("dispatcher-blocked", "request for chain %d was not consumed: the dispatcher is blocked", chain)
				blocked = true
			}
			after := qlen()
			now := time.Now()
			fwd := false
			for c, n := range after {
				d := n - before[c]
				if d == 0 {
					continue
				}
				if c != chain || d != 1 {
					violate("request-routed-to-wrong-watcher", "request for chain %d changed the queue of chain %d by %d", chain, c, d)
					continue
				}
				fwd = true
			}
			if fwd {
				// the element that arrived must be this request: drain-and-refill check of the tail
				q := queues[vaa.ChainID(chain)]
				n := len(q)
				var tail *gossipv1.ObservationRequest
				for k := 0; k < n; k++ {
					e := <-q
					q <- e
					tail = e
				}
				if tail == nil || tail.ChainId != chain || !bytes.Equal(tail.TxHash, tx) {
					violate("forwarded-request-altered", "the watcher of chain %d received another request than the one sent", chain)
				}
			}
			last, seen := lastFwd[key]
			switch {
			case !known:
				dropsUnknown++
				stats.Fault("unknown-chain")
				if fwd {
					violate("unknown-chain-forwarded", "request for chain %d without watcher was forwarded", chain)
				}
			case full:
				dropsFull++
				stats.Fault("watcher-queue-full")
				if fwd {
					violate("forwarded-into-full-queue", "queue of chain %d was full", chain)
				}
			case !seen:
				if !fwd {
					violate("fresh-request-not-forwarded", "first request (or first after a drop) for chain %d tx %x was not forwarded although the queue had room", chain, txHead(tx, 2))
				}
			case now.Sub(last) < 11*time.Minute-time.Second:
				if fwd {
					violate("forwarded-twice-within-window", "chain %d tx %x forwarded again %v after the previous forward", chain, txHead(tx, 2), now.Sub(last))
				} else {
					suppressed++
				}
			case now.Sub(last) >= 18*time.Minute+time.Second:
				if !fwd {
					violate("not-forwarded-after-window", "chain %d tx %x not forwarded %v after the previous forward", chain, txHead(tx, 2), now.Sub(last))
				}
				stats.Probe("forwarded-again-after-window")
			default:
				stats.Probe("request-in-grey-zone")
			}
			if fwd {
				forwards++
				lastFwd[key] = now
			}
			log.Add("req chain=%d tx=%x fwd=%v", chain, txHead(tx, 1), fwd)
		}
		for i, st := range p.Steps {
			step = i
			if blocked {
				break
			}
			switch st.Op {
			case "req":
				ci := st.A % int64(len(reobsChains))
				if ci < 0 {
					ci = -ci
				}
				doReq(reobsChains[ci], reobsTx(st.B))
			case "flood":
				// a backlog replay: more than a thousand distinct transactions of one chain are requested
				// within one window (the watcher keeps up), then early ones are asked for again
				c := reobsChains[(st.A%3+3)%3]
				q := queues[vaa.ChainID(c)]
				mk := func(k int) []byte {
					b := bytes.Repeat([]byte{0xf1}, 32)
					b[0], b[1], b[2] = byte(st.B), byte(k>>8), byte(k)
					return b
				}
				n := 1030 + int(st.B%200)
				for k := 0; k < n && !blocked; k++ {
					for len(q) > 0 {
						<-q
					}
					doReq(c, mk(k))
				}
				for _, k := range []int{0, 1, n / 2, n - 1} {
					for len(q) > 0 {
						<-q
					}
					if !blocked {
						doReq(c, mk(k))
					}
				}
				stats.Fault("request-flood")
			case "adv":
				d := time.Duration(st.A)
				if d <= 0 {
					d = time.Nanosecond
				}
				time.Sleep(d)
				synctest.Wait()
				log.Add("t=%v", time.Since(start))
			case "drain":
				c := reobsChains[(st.A%3+3)%3]
				q := queues[vaa.ChainID(c)]
				n := 0
				for k := int64(0); k < st.B; k++ {
					select {
					case <-q:
						n++
					default:
					}
				}
				log.Add("drain chain=%d n=%d", c, n)
			case "fill":
				c := reobsChains[(st.A%3+3)%3]
				q := queues[vaa.ChainID(c)]
				for len(q) < cap(q) {
					q <- &gossipv1.ObservationRequest{ChainId: 9999}
				}
				log.Add("fill chain=%d", c)
			case "post":
				// posting to a full outbound queue must fail immediately
				capN := int(st.A % 4)
				ch := make(chan *gossipv1.ObservationRequest, capN)
				for k := 0; k < capN; k++ {
					ch <- &gossipv1.ObservationRequest{}
				}
				var err error
				fin := false
				go func() {
					err = common.PostObservationRequest(ch, &gossipv1.ObservationRequest{ChainId: 2})
					fin = true
				}()
				synctest.Wait()
				if !fin {
					violate("post-to-full-queue-blocked", "PostObservationRequest on a full queue (cap %d) did not return", capN)
					<-ch // release the goroutine
					synctest.Wait()
				} else if err != common.ErrChanFull {
					violate("post-to-full-queue-succeeded", "PostObservationRequest on a full queue returned %v", err)
				}
				ch2 := make(chan *gossipv1.ObservationRequest, 1)
				if err := common.PostObservationRequest(ch2, &gossipv1.ObservationRequest{ChainId: 2}); err != nil || len(ch2) != 1 {
					violate("post-with-room-failed", "PostObservationRequest with room returned %v", err)
				}
				if raceBuild && !blocked {
					// race-detector tier: several producers (processor cleanup, admin RPC) post at
					// once while a single slot is free. Real parallelism decides who wins; whoever
					// loses must be told "full" at once. A producer parked on the queue is seen when
					// the bubble's clock can advance, i.e. when every goroutine is durably blocked.
					prev := runtime.GOMAXPROCS(4)
					capS := 1 + int(st.A%3)
					chs := make(chan *gossipv1.ObservationRequest, capS)
					for round := 0; round < 4000; round++ {
						for len(chs) > capS-1 {
							<-chs
						}
						for len(chs) < capS-1 {
							chs <- &gossipv1.ObservationRequest{}
						}
						var wg sync.WaitGroup
						var oks atomic.Int32
						startC := make(chan struct{})
						for g := 0; g < 3; g++ {
							wg.Add(1)
							go func() {
								defer wg.Done()
								<-startC
								if common.PostObservationRequest(chs, &gossipv1.ObservationRequest{ChainId: 2}) == nil {
									oks.Add(1)
								}
							}()
						}
						doneC := make(chan struct{})
						go func() { wg.Wait(); close(doneC) }()
						close(startC)
						stalled := false
						select {
						case <-doneC:
						case <-time.After(time.Second):
							stalled = true
							violate("concurrent-post-stalled", "with one free slot and three concurrent producers a PostObservationRequest call parked on the queue instead of returning (cap %d)", capS)
							for k := 0; k < 3; k++ {
								select {
								case <-chs:
								default:
								}
							}
							<-doneC
						}
						if !stalled && (oks.Load() > 1 || len(chs) > capS) {
							violate("concurrent-post-overfilled", "one free slot, %d posts accepted", oks.Load())
						}
						if stalled {
							break
						}
					}
					runtime.GOMAXPROCS(prev)
					stats.Probe("concurrent-post-storm")
				}
				stats.Fault("outbound-queue-full")
				log.Add("post cap=%d", capN)
			}
			log.Cut(fmt.Sprintf("%d %s", i, st))
			if blocked {
				break
			}
		}
		res.SimNs = int64(time.Since(start))
		cancel()
		if !blocked {
			<-done
		}
	}
	func() {
		defer func() {
			if r := recover(); r != nil {
				if strings.Contains(fmt.Sprint(r), "deadlock") && blocked {
					return
				}
				res.HarnessErr = "bubble: " + fmt.Sprint(r)
			}
		}()
		synctest.Test(h.t, body)
	}()
	stats.ProbeN("forwards", int64(forwards))
	stats.ProbeN("suppressed-duplicates", int64(suppressed))
	stats.ProbeN("drops-queue-full", int64(dropsFull))
	stats.ProbeN("drops-unknown-chain", int64(dropsUnknown))
	res.Faults, res.Probes = stats.Faults, stats.Probes
	res.Log, res.LogHash = log.Lines(), log.Hash()
	res.NonTrivial = forwards > 0 && (suppressed > 0 || dropsFull > 0)
	return res
}

func TestVerifSim(t *testing.T) {
	if os.Getenv("VERIF_OUT") == "" {
		t.Skip("verification harness: run through /verif/bin/check")
	}
	if msg := simkit.Main(reobsHarness{t}); msg != "" {
		fmt.Println("HARNESS-TROUBLE: " + msg)
		t.Fatal(msg)
	}
}
