//go:build verif && !race

package guardiand

const raceBuild = false
