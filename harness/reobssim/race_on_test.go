//go:build verif && race

package guardiand

const raceBuild = true
