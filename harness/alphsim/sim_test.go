//go:build verif

// alphsim (C08, C09): the real Alephium watcher (Watcher.Run with its four loops, Client, the
// go-sdk HTTP/JSON client) against a simulated Alephium full node inside a synctest bubble.
// Seam: http.DefaultTransport is replaced by the simulated node (an http.RoundTripper); every
// request is parked and the simulator releases one at a time in a canonical, seed-derived order.
// Simulated: the node (chain with reorgs, governance event log, tx index, token contracts),
// the clock, the supervisor's restart policy (a loop that restarts Run one second after it
// returned; the real supervisor is the subject of supsim).
package alephium

import (
	"bytes"
	"context"
	"encoding/binary"
	"encoding/hex"
	"encoding/json"
	"fmt"
	"io"
	"math/big"
	"net/http"
	"os"
	"runtime"
	"sort"
	"strconv"
	"strings"
	"sync"
	"testing"
	"testing/synctest"
	"time"

	sdk "github.com/alephium/go-sdk"
	"github.com/alephium/wormhole-fork/node/pkg/common"
	gossipv1 "github.com/alephium/wormhole-fork/node/pkg/proto/gossip/v1"
	"github.com/alephium/wormhole-fork/node/pkg/supervisor"
	"github.com/ethereum/go-ethereum/crypto"
	"go.uber.org/zap"

	"verif.local/simkit"
)

// ---------------------------------------------------------------------------------------------
// simulated chain

var (
	govID     = mk32(0x10, 0) // governance (core) contract id, group 0
	bridgeID  = mk32(0x20, 0) // token bridge contract id
	foreignID = mk32(0x30, 0) // some other contract that also calls publishWormholeMessage
	lookID    = mk32(0x40, 0) // a contract emitting look-alike events on its own stream
)

func mk32(b byte, last byte) Byte32 {
	var x Byte32
	for i := range x {
		x[i] = b
	}
	x[31] = last
	return x
}

func addrOf(id Byte32) string {
	a, err := ToContractAddress(id.ToHex())
	if err != nil {
		panic(err)
	}
	return *a
}

type simEvent struct {
	id         int
	contract   string
	eventIndex int32
	fields     []sdk.Val
	kind       int
	variant    int
	// ground truth for the oracle
	wellFormed  bool
	sender      Byte32
	targetChain uint64
	sequence    uint64
	nonce       uint32
	payload     []byte
	level       uint64
	attestOK    bool // for attestations: payload equals the token's on-chain metadata
	isAttest    bool
	isTransfer  bool
	emittedAt   time.Duration
	emittedInc  int // watcher incarnation running when it was emitted (-1: none)
	expectFwd   bool
	attTok      string // attestations of a contract token: token id (hex) and the metadata claimed
	attSym      string
	attName     string
	attDec      int
}

type simTx struct {
	id     string
	events []*simEvent
}

type simBlock struct {
	hash   string
	height int32
	ts     int64 // ms
	txs    []*simTx
}

type logEntry struct {
	ev    *simEvent
	tx    *simTx
	block *simBlock
}

type tokenMeta struct {
	symbol, name string
	decimals     int
	failMode     int
}

type parkedReq struct {
	key    string
	caller string
	req    *http.Request
	body   []byte
	resp   chan *http.Response
	seq    int
}

type handoff struct {
	pub  *common.MessagePublication
	path string
	inc  int
	at   time.Duration
}

type alphSim struct {
	mu    sync.Mutex
	res   *simkit.Result
	log   *simkit.Log
	stats *simkit.Stats
	prog  *simkit.Program
	start time.Time

	main    []*simBlock // index = height
	blocks  map[string]*simBlock
	govLog  []logEntry
	txIndex map[string][]logEntry
	txs     []*simTx
	tokens  map[string]*tokenMeta
	nextEv  int
	nextBlk int
	version int // bumps with every chain mutation

	pageSize int
	mainnet  bool
	poll     time.Duration

	parked   []*parkedReq
	reqSeq   int
	epoch    uint64
	faults   []faultWindow // order-independent fault decisions (rule D3)
	nFaults  int
	raceArm  []raceSpec // events to append right after the next count / page answer
	lastRel  string
	sameRel  int
	lastRelT time.Duration
	aborting bool
	inRound  bool
	round    int
	reqCount map[string]int

	watcher                 *Watcher
	msgC                    chan *common.MessagePublication
	obsvReqC                chan *gossipv1.ObservationRequest
	inc                     int // current watcher incarnation
	incLive                 bool
	restarts                int
	lastErr                 string
	stopping                bool
	reobsPhase              bool
	lastFaultAt             time.Duration
	forceFault              map[string]int // request kind -> fault code for the next request of that kind
	prevMeta                *tokenMeta     // what token 0x50 reported before the last change
	injectedFaultSinceStart bool

	handoffs  []handoff
	delivered map[string]int // eventId/blockHash/path -> count
	step      int
}

// faultWindow: every request of `kind` released while the fake clock is inside [from, until] and
// whose key hashes into the window's selection gets fault `code`: a pure function of (seed, window
// serial, request key), independent of the order in which map iteration issues the requests.
type faultWindow struct {
	kind        string
	code        int
	serial      int
	from, until time.Duration
}

func (s *alphSim) faultFor(kind, key string) (int, bool) {
	now := s.now()
	for _, f := range s.faults {
		if f.kind == kind && now >= f.from && now <= f.until && simkit.Hash64(s.prog.Seed, "fault", strconv.Itoa(f.serial), key)%3 != 0 {
			return f.code, true
		}
	}
	return 0, false
}

type raceSpec struct {
	when                 int // 0: after the count answer, 1: after the first page answer
	kind, level, variant int
}

func (s *alphSim) now() time.Duration { return time.Since(s.start) }
func (s *alphSim) nowMs() int64       { return time.Now().UnixMilli() }

func (s *alphSim) violate(prop, key, format string, a ...interface{}) {
	for _, v := range s.res.Violations {
		if v.Prop == prop && v.Key == key {
			return
		}
	}
	s.res.Violations = append(s.res.Violations, simkit.Violation{Prop: prop, Key: key, Step: s.step, Detail: fmt.Sprintf(format, a...)})
	s.log.Add("VIOLATION %s %s", prop, key)
}

func (s *alphSim) height() int32 { return int32(len(s.main) - 1) }

func (s *alphSim) newBlock(height int32) *simBlock {
	s.nextBlk++
	h := crypto.Keccak256([]byte("block"), []byte(strconv.Itoa(s.nextBlk)))
	b := &simBlock{hash: hex.EncodeToString(h), height: height, ts: s.nowMs()}
	s.blocks[b.hash] = b
	return b
}

func (s *alphSim) mine(n int) {
	for i := 0; i < n; i++ {
		s.main = append(s.main, s.newBlock(int32(len(s.main))))
	}
	s.version++
}

func (s *alphSim) onMain(b *simBlock) bool {
	return b != nil && int(b.height) < len(s.main) && s.main[b.height] == b
}

func (s *alphSim) includeTx(tx *simTx, b *simBlock) {
	b.txs = append(b.txs, tx)
	for _, e := range tx.events {
		s.includeEvent(e, tx, b)
	}
}

func (s *alphSim) includeEvent(e *simEvent, tx *simTx, b *simBlock) {
	le := logEntry{e, tx, b}
	if e.contract == addrOf(govID) {
		s.govLog = append(s.govLog, le)
	}
	s.txIndex[tx.id] = append(s.txIndex[tx.id], le)
}

func u256(v string) sdk.Val { return sdk.Val{ValU256: &sdk.ValU256{Type: "U256", Value: v}} }
func bvec(b []byte) sdk.Val {
	return sdk.Val{ValByteVec: &sdk.ValByteVec{Type: "ByteVec", Value: hex.EncodeToString(b)}}
}

func attestPayload(tokenID Byte32, decimals byte, symbol, name string) []byte {
	return attestPayloadAligned(tokenID, decimals, symbol, name, false)
}

// attestPayloadAligned: the caller of attestToken supplies the two 32-byte text fields; clients pad
// them with zero bytes on the right or on the left.
func attestPayloadAligned(tokenID Byte32, decimals byte, symbol, name string, padLeft bool) []byte {
	p := make([]byte, 100)
	p[0] = 2
	copy(p[1:33], tokenID[:])
	binary.BigEndian.PutUint16(p[33:35], 255)
	p[35] = decimals
	if padLeft && len(symbol) <= 32 && len(name) <= 32 {
		copy(p[68-len(symbol):68], symbol)
		copy(p[100-len(name):100], name)
		return p
	}
	copy(p[36:68], symbol)
	copy(p[68:100], name)
	return p
}

// makeEvent builds one event of the requested kind. Kinds:
//
//	0 transfer from the token bridge        1 attestation matching the token's metadata
//	2 attestation with other metadata       3 well-formed message from a foreign caller
//	4 malformed (variant selects how)       5 attestation naming a token whose metadata call misbehaves
//	6 well-formed boundary values           7 look-alike on another contract's stream (only in the tx index)
func (s *alphSim) makeEvent(kind, level, variant int, seq uint64) *simEvent {
	s.nextEv++
	e := &simEvent{id: s.nextEv, contract: addrOf(govID), kind: kind, variant: variant, wellFormed: true, sender: bridgeID,
		targetChain: 2, sequence: seq, nonce: uint32(1000 + s.nextEv), level: uint64(level), emittedAt: s.now(), emittedInc: -1}
	if s.incLive {
		e.emittedInc = s.inc
	}
	pay := make([]byte, 133)
	for i := range pay {
		pay[i] = byte(i + s.nextEv)
	}
	pay[0] = 1
	e.payload = pay
	e.isTransfer = true
	targetS, seqS, levelS := "2", strconv.FormatUint(seq, 10), strconv.Itoa(level)
	nonceB := make([]byte, 4)
	binary.BigEndian.PutUint32(nonceB, e.nonce)
	senderB := e.sender[:]
	payloadV := bvec(pay)
	targetV := u256(targetS)
	var extra []sdk.Val
	drop := -1
	switch kind {
	case 0:
		if variant%4 == 1 {
			// a non-transfer, non-attestation payload (id 3)
			e.payload[0] = 3
			e.isTransfer = false
			payloadV = bvec(e.payload)
		}
	case 1, 2, 5:
		tok := mk32(0x50, 0)
		meta := s.tokens[tok.ToHex()]
		if kind == 5 {
			tok = mk32(byte(0x60+variant%13), 0)
			meta = &tokenMeta{symbol: "BAD", name: "Bad token", decimals: 8, failMode: 1 + variant%13}
			s.tokens[tok.ToHex()] = meta
			if variant%3 != 0 {
				e.sender = foreignID // anyone can publish an attestation-shaped message
			}
		}
		dec := byte(meta.decimals)
		stale := kind == 1 && variant >= 1000 && s.prevMeta != nil
		if stale {
			// claims what the contract reported before its metadata changed
			meta = s.prevMeta
			dec = byte(meta.decimals)
			s.stats.Fault("attestation-with-stale-metadata")
		}
		if kind == 2 {
			if variant%2 == 0 {
				dec++
			} else {
				meta = &tokenMeta{symbol: meta.symbol, name: "Other name", decimals: meta.decimals}
			}
		}
		e.payload = attestPayloadAligned(tok, dec, meta.symbol, meta.name, variant%2 == 1)
		if kind != 5 {
			e.attTok, e.attSym, e.attName, e.attDec = tok.ToHex(), meta.symbol, meta.name, int(dec)
		}
		if kind == 2 && (variant/2)%3 == 2 {
			// the 32-byte symbol field holds other bytes, a run of zeros, and then the real symbol at
			// its end: not what the token contract reports, however one strips padding
			var f [32]byte
			copy(f[:], "FAKE")
			copy(f[32-len(s.tokens[tok.ToHex()].symbol):], s.tokens[tok.ToHex()].symbol)
			e.payload = attestPayloadAligned(tok, byte(s.tokens[tok.ToHex()].decimals), string(f[:]), s.tokens[tok.ToHex()].name, true)
			e.attSym = string(f[:])
			s.stats.Fault("attestation-with-padded-forged-symbol")
		}
		if kind == 2 && (variant/2)%3 == 1 {
			// the attestation layout followed by trailing bytes: still an attestation (payload id 2)
			// claiming metadata the token contract does not report
			e.payload = append(e.payload, make([]byte, 1+variant%7)...)
			s.stats.Fault("attestation-with-trailing-bytes")
		}
		e.isAttest, e.isTransfer = true, false
		e.attestOK = (kind == 1 && !stale) || (kind == 5 && meta.failMode == 13) // a slow answer is still a correct one
		payloadV = bvec(e.payload)
		senderB = e.sender[:]
	case 8:
		// attestation of the native token (the all-zero id is not a contract: its metadata is fixed by
		// the protocol - 18 decimals, "ALPH", "Alephium"); odd variants claim something else
		var tok Byte32
		dec, sym, name := byte(18), "ALPH", "Alephium"
		if variant%2 == 1 {
			switch (variant / 2) % 3 {
			case 0:
				dec = 8
			case 1:
				sym = "ALPHX"
			default:
				name = "Alephium Token"
			}
			s.stats.Fault("native-token-attestation-with-wrong-metadata")
		}
		e.payload = attestPayload(tok, dec, sym, name)
		e.isAttest, e.isTransfer = true, false
		e.attestOK = variant%2 == 0
		payloadV = bvec(e.payload)
	case 3:
		e.sender = foreignID
		senderB = e.sender[:]
	case 4:
		e.wellFormed = false
		if variant%2 == 0 {
			e.sender = foreignID // anyone can call publishWormholeMessage with out-of-range values
			senderB = e.sender[:]
		}
		switch (variant / 2) % 12 {
		case 0:
			targetS = "65536"
			targetV = u256(targetS)
		case 1:
			targetV = u256(new(big.Int).Sub(new(big.Int).Lsh(big.NewInt(1), 256), big.NewInt(1)).String())
		case 2:
			seqS = "18446744073709551616"
		case 3:
			levelS = "256"
		case 4:
			nonceB = nonceB[:3]
		case 5:
			nonceB = append(nonceB, 0)
		case 6:
			drop = 5
		case 7:
			extra = append(extra, u256("1"))
		case 8:
			targetV = bvec([]byte{0, 2})
			e.sender = foreignID
			senderB = e.sender[:]
		case 9:
			levelS = "abc"
			e.sender = foreignID
			senderB = e.sender[:]
		case 10:
			senderB = senderB[:31]
		case 11:
			payloadV = sdk.Val{ValByteVec: &sdk.ValByteVec{Type: "ByteVec", Value: "abc"}}
			e.sender = foreignID
			senderB = e.sender[:]
		}
	case 6:
		switch variant % 3 {
		case 0:
			e.targetChain = 65535
			targetV = u256("65535")
		case 1:
			e.sequence = ^uint64(0)
			seqS = "18446744073709551615"
		case 2:
			e.targetChain = 0
			targetV = u256("0")
		}
		if variant%4 == 3 {
			// a message with an empty payload is legal (publishWormholeMessage is open to any payload)
			e.payload = []byte{}
			e.isTransfer = false
			payloadV = bvec(e.payload)
		}
		if variant%16 == 7 {
			// the largest legal consistency level (the token bridge only enforces a minimum)
			e.level = 255
			levelS = "255"
		}
	case 7:
		e.contract = addrOf(lookID)
		e.sequence = seq + 1000
		seqS = strconv.FormatUint(e.sequence, 10)
	}
	e.fields = []sdk.Val{bvec(senderB), targetV, u256(seqS), bvec(nonceB), payloadV, u256(levelS)}
	if drop >= 0 {
		e.fields = e.fields[:drop]
	}
	e.fields = append(e.fields, extra...)
	e.expectFwd = e.wellFormed && e.sender == bridgeID && e.contract == addrOf(govID) && (!e.isAttest || e.attestOK)
	return e
}

// emit mines one new block holding the event (and `more` further token-bridge messages with other
// consistency levels, each in its own transaction of the same block).
func (s *alphSim) emit(kind, level, variant, more int) *simTx {
	s.mu.Lock()
	defer s.mu.Unlock()
	b := s.newBlock(int32(len(s.main)))
	s.main = append(s.main, b)
	var first *simTx
	for k := 0; k <= more; k++ {
		seq := uint64(len(s.txs))
		tx := &simTx{id: hex.EncodeToString(crypto.Keccak256([]byte("tx"), []byte(strconv.Itoa(len(s.txs)))))}
		switch {
		case k > 0:
			kk := 0
			if k%3 == 2 {
				kk = 1 // a matching attestation: on mainnet it confirms long before a transfer of the same block
			}
			merge := (variant+k)%2 == 1 && first != nil && kind != 7
			if merge {
				seq = uint64(500000 + s.nextEv) // sequences stay unique although no transaction is added
			}
			ev := s.makeEvent(kk, (level+3*k)%64, variant+k, seq)
			if merge {
				// the token bridge publishes a further message in the same transaction
				first.events = append(first.events, ev)
				s.includeEvent(ev, first, b)
				s.stats.Fault("several-messages-in-one-transaction")
				continue
			}
			tx.events = append(tx.events, ev)
			s.stats.Fault("several-messages-in-one-block")
		case kind == 7:
			tx.events = append(tx.events, s.makeEvent(0, level, 0, seq), s.makeEvent(7, level, variant, seq))
		default:
			tx.events = append(tx.events, s.makeEvent(kind, level, variant, seq))
		}
		s.txs = append(s.txs, tx)
		s.includeTx(tx, b)
		if first == nil {
			first = tx
		}
	}
	s.version++
	return first
}

func (s *alphSim) reorg(depth, mode int) {
	s.mu.Lock()
	defer s.mu.Unlock()
	if depth >= len(s.main)-1 {
		depth = len(s.main) - 2
	}
	if depth <= 0 {
		return
	}
	old := s.main[len(s.main)-depth:]
	s.main = s.main[:len(s.main)-depth]
	for _, ob := range old {
		nb := s.newBlock(int32(len(s.main)))
		s.main = append(s.main, nb)
		if mode%2 == 1 {
			for _, tx := range ob.txs {
				s.includeTx(tx, nb)
			}
		}
	}
	if mode < 2 {
		// the new branch is one block longer
		s.main = append(s.main, s.newBlock(int32(len(s.main))))
	} else {
		// same height: the node switched to a sibling branch of equal length (heavier by weight)
		s.stats.Fault("reorg-same-height")
	}
	s.version++
}

// ---------------------------------------------------------------------------------------------
// the node's HTTP face

func callerOf() string {
	pcs := make([]uintptr, 48)
	n := runtime.Callers(3, pcs)
	fr := runtime.CallersFrames(pcs[:n])
	for {
		f, more := fr.Next()
		switch {
		case strings.HasSuffix(f.Function, "(*Watcher).fetchEvents"):
			return "fetchEvents"
		case strings.HasSuffix(f.Function, "(*Watcher)._fetchHeight"):
			return "fetchHeight"
		case strings.HasSuffix(f.Function, "(*Watcher).handleEvents_"):
			return "handleEvents"
		case strings.HasSuffix(f.Function, "(*Watcher).handleObsvRequest"):
			return "reobserve"
		case strings.HasSuffix(f.Function, "(*Watcher).Run"):
			return "run"
		}
		if !more {
			return "other"
		}
	}
}

func (s *alphSim) RoundTrip(req *http.Request) (*http.Response, error) {
	var body []byte
	if req.Body != nil {
		body, _ = io.ReadAll(req.Body)
		req.Body.Close()
	}
	p := &parkedReq{key: req.Method + " " + req.URL.Path + "?" + req.URL.RawQuery, caller: callerOf(), req: req, body: body, resp: make(chan *http.Response, 1)}
	s.mu.Lock()
	s.reqSeq++
	p.seq = s.reqSeq
	s.parked = append(s.parked, p)
	s.mu.Unlock()
	select {
	case r := <-p.resp:
		if r == nil {
			<-req.Context().Done() // simulated stall beyond the caller's deadline
			return nil, req.Context().Err()
		}
		if d := r.Header.Get("X-Verif-Delay-Ms"); d != "" {
			ms, _ := strconv.Atoi(d)
			r.Header.Del("X-Verif-Delay-Ms")
			if p.caller == "reobserve" {
				// hand-offs are attributed to the re-observation path by phase: the `reobs` step ends when
				// the handler has no request left, so its requests are answered without simulated delay
				// (a late answer would make its hand-off count as one of the polling path)
				ms = 0
			}
			select {
			case <-time.After(time.Duration(ms) * time.Millisecond):
			case <-req.Context().Done():
				return nil, req.Context().Err()
			}
		}
		return r, nil
	case <-req.Context().Done():
		s.mu.Lock()
		for i, q := range s.parked {
			if q == p {
				s.parked = append(s.parked[:i], s.parked[i+1:]...)
				break
			}
		}
		s.mu.Unlock()
		return nil, req.Context().Err()
	}
}

func jsonResp(req *http.Request, code int, v interface{}) *http.Response {
	var b []byte
	switch x := v.(type) {
	case []byte:
		b = x
	default:
		b, _ = json.Marshal(v)
	}
	return &http.Response{StatusCode: code, Status: fmt.Sprintf("%d", code), Proto: "HTTP/1.1", ProtoMajor: 1, ProtoMinor: 1,
		Header: http.Header{"Content-Type": []string{"application/json"}}, Body: io.NopCloser(bytes.NewReader(b)), ContentLength: int64(len(b)), Request: req}
}

func reqKind(path string) string {
	switch {
	case strings.HasSuffix(path, "/current-count"):
		return "count"
	case strings.HasPrefix(path, "/events/contract/"):
		return "page"
	case strings.HasPrefix(path, "/events/tx-id/"):
		return "txevents"
	case path == "/blockflow/chain-info":
		return "height"
	case strings.HasPrefix(path, "/blockflow/headers/"):
		return "header"
	case path == "/blockflow/is-block-in-main-chain":
		return "canonical"
	case path == "/transactions/status":
		return "txstatus"
	case path == "/contracts/multicall-contract":
		return "multicall"
	case path == "/infos/version":
		return "version"
	case path == "/infos/self-clique":
		return "clique"
	}
	return "other"
}

// answer computes the node's response from the chain state at the instant of release.
func (s *alphSim) answer(p *parkedReq) *http.Response {
	req := p.req
	path := req.URL.Path
	q := req.URL.Query()
	kind := reqKind(path)
	s.reqCount[kind]++
	if s.aborting {
		return jsonResp(req, 503, map[string]string{"detail": "simulation is shutting down"})
	}
	f, hit := s.faultFor(kind, p.key)
	if c, forced := s.forceFault[kind]; forced {
		delete(s.forceFault, kind)
		f, hit = c, true
	}
	if hit {
		s.lastFaultAt = s.now()
		s.injectedFaultSinceStart = true
		switch f {
		case 0:
			s.stats.Fault("rpc-http-500:" + kind)
			return jsonResp(req, 500, map[string]string{"detail": "injected internal error"})
		case 1:
			s.stats.Fault("rpc-malformed-json:" + kind)
			return jsonResp(req, 200, []byte(`{"events": [ {"blockHash": `))
		case 2:
			s.stats.Fault("rpc-timeout:" + kind)
			return nil
		case 3:
			s.stats.Fault("rpc-http-404:" + kind)
			return jsonResp(req, 404, map[string]string{"detail": "not found", "resource": "injected"})
		}
	}
	switch kind {
	case "version":
		return jsonResp(req, 200, map[string]string{"version": "v2.5.9"})
	case "clique":
		return jsonResp(req, 200, map[string]interface{}{"cliqueId": "00", "nodes": []interface{}{}, "selfReady": true, "synced": true})
	case "height":
		return jsonResp(req, 200, map[string]interface{}{"currentHeight": s.height()})
	case "header":
		h := strings.TrimPrefix(path, "/blockflow/headers/")
		b := s.blocks[h]
		if b == nil {
			return jsonResp(req, 404, map[string]string{"detail": "block not found", "resource": h})
		}
		return jsonResp(req, 200, sdk.BlockHeaderEntry{Hash: b.hash, Timestamp: b.ts, ChainFrom: 0, ChainTo: 0, Height: b.height, Deps: []string{}})
	case "canonical":
		b := s.blocks[q.Get("blockHash")]
		if b == nil {
			return jsonResp(req, 404, map[string]string{"detail": "block not found", "resource": q.Get("blockHash")})
		}
		return jsonResp(req, 200, s.onMain(b))
	case "count":
		n := len(s.govLog)
		s.fireRace(0)
		return jsonResp(req, 200, n)
	case "page":
		start, _ := strconv.Atoi(q.Get("start"))
		limit := s.pageSize
		if l := q.Get("limit"); l != "" {
			limit, _ = strconv.Atoi(l)
		}
		end := start + limit
		if end > len(s.govLog) {
			end = len(s.govLog)
		}
		evs := []sdk.ContractEvent{}
		for i := start; i < end && i >= 0; i++ {
			le := s.govLog[i]
			evs = append(evs, sdk.ContractEvent{BlockHash: le.block.hash, TxId: le.tx.id, EventIndex: le.ev.eventIndex, Fields: le.ev.fields})
		}
		if end < start {
			end = start
		}
		if len(evs) > 0 {
			s.stats.Probe("pages-served")
		}
		if end < len(s.govLog) {
			s.stats.Probe("page-split")
		}
		s.fireRace(1)
		return jsonResp(req, 200, map[string]interface{}{"events": evs, "nextStart": end})
	case "txevents":
		id := strings.TrimPrefix(path, "/events/tx-id/")
		evs := []sdk.ContractEventByTxId{}
		for _, le := range s.txIndex[id] {
			evs = append(evs, sdk.ContractEventByTxId{BlockHash: le.block.hash, ContractAddress: le.ev.contract, EventIndex: le.ev.eventIndex, Fields: le.ev.fields})
		}
		return jsonResp(req, 200, map[string]interface{}{"events": evs})
	case "txstatus":
		id := q.Get("txId")
		les := s.txIndex[id]
		if len(les) == 0 {
			return jsonResp(req, 200, map[string]string{"type": "TxNotFound"})
		}
		for _, le := range les {
			if s.onMain(le.block) {
				return jsonResp(req, 200, map[string]interface{}{"type": "Confirmed", "blockHash": le.block.hash, "txIndex": 0,
					"chainConfirmations": s.height() - le.block.height + 1, "fromGroupConfirmations": 1, "toGroupConfirmations": 1})
			}
		}
		return jsonResp(req, 200, map[string]string{"type": "MemPooled"})
	case "multicall":
		var mc sdk.MultipleCallContract
		if err := json.Unmarshal(p.body, &mc); err != nil {
			return jsonResp(req, 400, map[string]string{"detail": "bad request"})
		}
		results := []interface{}{}
		for _, c := range mc.Calls {
			id, err := ToContractId(c.Address)
			var meta *tokenMeta
			if err == nil {
				meta = s.tokens[id.ToHex()]
			}
			results = append(results, s.callToken(meta, int(c.MethodIndex)))
		}
		if len(mc.Calls) > 0 {
			if id, err := ToContractId(mc.Calls[0].Address); err == nil {
				if m := s.tokens[id.ToHex()]; m != nil {
					switch m.failMode {
					case 13:
						// slow but successful (each call well inside the client's 10 s deadline)
						s.stats.Fault("token-multicall-slow")
						r := jsonResp(req, 200, map[string]interface{}{"results": results})
						r.Header.Set("X-Verif-Delay-Ms", "3700")
						return r
					case 8:
						s.stats.Fault("token-multicall-two-results")
						results = results[:2]
					case 9:
						s.stats.Fault("token-multicall-http-500")
						return jsonResp(req, 500, map[string]string{"detail": "vm execution error"})
					}
				}
			}
		}
		return jsonResp(req, 200, map[string]interface{}{"results": results})
	}
	return jsonResp(req, 404, map[string]string{"detail": "unknown endpoint", "resource": path})
}

func (s *alphSim) callToken(meta *tokenMeta, method int) interface{} {
	failed := map[string]interface{}{"type": "CallContractFailed", "error": "VM execution error: contract does not exist"}
	ok := func(vals ...sdk.Val) interface{} {
		return map[string]interface{}{"type": "CallContractSucceeded", "returns": vals, "gasUsed": 100, "contracts": []interface{}{}, "txInputs": []string{},
			"txOutputs": []interface{}{}, "events": []interface{}{}}
	}
	if meta == nil {
		s.stats.Fault("token-contract-missing")
		return failed
	}
	var v sdk.Val
	switch method {
	case 0:
		v = bvec([]byte(meta.symbol))
	case 1:
		v = bvec([]byte(meta.name))
	default:
		v = u256(strconv.Itoa(meta.decimals))
	}
	switch meta.failMode {
	case 1, 2, 3:
		if method == meta.failMode-1 {
			s.stats.Fault(fmt.Sprintf("token-method-%d-fails", method))
			return failed
		}
	case 4, 5, 6:
		if method == meta.failMode-4 {
			s.stats.Fault(fmt.Sprintf("token-method-%d-returns-nothing", method))
			return ok()
		}
	case 7:
		if method == 1 {
			s.stats.Fault("token-method-returns-two-values")
			return ok(v, v)
		}
	case 10:
		if method == 0 {
			s.stats.Fault("token-method-wrong-type")
			return ok(u256("7"))
		}
	case 11:
		if method == 2 {
			s.stats.Fault("token-decimals-wrong-type")
			return ok(bvec([]byte{8}))
		}
	case 12:
		if method == 2 {
			s.stats.Fault("token-decimals-out-of-range")
			return ok(u256("256"))
		}
	}
	return ok(v)
}

// fireRace appends armed events right after a count (when=0) or page (when=1) answer.
func (s *alphSim) fireRace(when int) {
	var rest []raceSpec
	for _, r := range s.raceArm {
		if r.when != when {
			rest = append(rest, r)
			continue
		}
		seq := uint64(len(s.txs))
		tx := &simTx{id: hex.EncodeToString(crypto.Keccak256([]byte("tx"), []byte(strconv.Itoa(len(s.txs)))))}
		tx.events = append(tx.events, s.makeEvent(r.kind, r.level, r.variant, seq))
		s.txs = append(s.txs, tx)
		b := s.newBlock(int32(len(s.main)))
		s.main = append(s.main, b)
		s.includeTx(tx, b)
		s.version++
		s.stats.Fault([]string{"event-between-count-and-page", "event-between-pages"}[when])
	}
	s.raceArm = rest
}

// ---------------------------------------------------------------------------------------------
// scheduling: release exactly one parked request at a time

func (s *alphSim) pick(only string) *parkedReq {
	s.mu.Lock()
	defer s.mu.Unlock()
	var cand []*parkedReq
	for _, p := range s.parked {
		if only != "" && p.caller != only {
			continue
		}
		cand = append(cand, p)
	}
	if len(cand) == 0 {
		return nil
	}
	// rule D6: while the event handler is inside a confirmation round (it has a request parked), at
	// most ONE of the two fetchers may make progress - otherwise both could end up blocked on their
	// hand-over channels and Go's select would pick between them at random. Which one (events,
	// height or none) is drawn per round from the seed.
	var he []*parkedReq
	for _, p := range cand {
		if p.caller == "handleEvents" {
			he = append(he, p)
		}
	}
	if len(he) > 0 && !s.inRound {
		s.inRound = true
		s.round++
	} else if len(he) == 0 {
		s.inRound = false
	}
	if len(he) > 0 && only == "" {
		allowed := []string{"fetchEvents", "fetchHeight", ""}[simkit.Hash64(s.prog.Seed, "round", strconv.Itoa(s.round))%3]
		var c2 []*parkedReq
		for _, p := range cand {
			if p.caller == "handleEvents" || (allowed != "" && p.caller == allowed) {
				c2 = append(c2, p)
			}
		}
		cand = c2
	}
	sort.Slice(cand, func(i, j int) bool {
		if cand[i].caller != cand[j].caller {
			return cand[i].caller < cand[j].caller
		}
		if cand[i].key != cand[j].key {
			return cand[i].key < cand[j].key
		}
		return cand[i].seq < cand[j].seq
	})
	s.epoch++
	p := cand[int(simkit.Hash64(s.prog.Seed, "pick", strconv.FormatUint(s.epoch, 10))%uint64(len(cand)))]
	for i, q := range s.parked {
		if q == p {
			s.parked = append(s.parked[:i], s.parked[i+1:]...)
			break
		}
	}
	return p
}

func (s *alphSim) release(p *parkedReq) {
	s.mu.Lock()
	resp := s.answer(p)
	// livelock detector: the same request from the same loop, answered the same way, while neither
	// the clock nor the chain moved
	sig := p.caller + " " + p.key + " v" + strconv.Itoa(s.version)
	if sig == s.lastRel && s.now() == s.lastRelT {
		s.sameRel++
	} else {
		s.lastRel, s.sameRel, s.lastRelT = sig, 0, s.now()
	}
	if s.sameRel == 40 && !s.aborting {
		s.violate("C09", "request-livelock@"+p.caller, "the %s loop repeats %q without pause (40 identical requests at one instant, chain unchanged)", p.caller, p.key)
		s.aborting = true
	}
	s.mu.Unlock()
	p.resp <- resp
}

// pump releases parked requests and advances the fake clock until `until`.
func (s *alphSim) pump(until time.Duration) {
	guard, aborted := 0, 0
	for {
		synctest.Wait()
		if p := s.pick(""); p != nil {
			s.release(p)
			guard++
			if guard > 3000000 {
				s.res.HarnessErr = "pump: action cap reached"
				s.aborting = true
				return
			}
			if s.aborting {
				// the run is over (a violation was recorded); a watcher that keeps asking regardless
				// is not fed any further
				if aborted++; aborted > 2000 {
					return
				}
			}
			continue
		}
		rem := until - s.now()
		if rem <= 0 || s.aborting {
			return
		}
		// small steps: a request must never sit parked for a noticeable part of the client's 10 s deadline
		st := 250 * time.Millisecond
		if s.poll < st {
			st = s.poll
		}
		if rem < st {
			st = rem
		}
		time.Sleep(st)
	}
}

// ---------------------------------------------------------------------------------------------
// oracle at hand-off (C08)

func (s *alphSim) onHandoff(pub *common.MessagePublication) {
	s.mu.Lock()
	defer s.mu.Unlock()
	path := "poll"
	if s.reobsPhase {
		path = "reobs"
	}
	s.handoffs = append(s.handoffs, handoff{pub, path, s.inc, s.now()})
	txid := hex.EncodeToString(pub.TxHash.Bytes())
	les := s.txIndex[txid]
	pfx := ""
	if path == "reobs" {
		pfx = "reobs:"
	}
	tsMs := pub.Timestamp.UnixMilli()
	fieldsMatch := func(e *simEvent) bool {
		return e.wellFormed && pub.Sequence == e.sequence && uint64(pub.TargetChain) == e.targetChain && pub.Nonce == e.nonce &&
			uint64(pub.ConsistencyLevel) == e.level && bytes.Equal(pub.Payload, e.payload) && bytes.Equal(pub.EmitterAddress[:], e.sender[:]) && uint16(pub.EmitterChain) == 255
	}
	var matching []logEntry
	for _, le := range les {
		if fieldsMatch(le.ev) {
			matching = append(matching, le)
		}
	}
	if len(matching) == 0 {
		s.violate("C08", pfx+"forwarded-message-matches-no-event", "message seq=%d tx=%s does not equal any event of that transaction", pub.Sequence, txid[:8])
		return
	}
	reasons := map[string]string{}
	for _, le := range matching {
		e := le.ev
		switch {
		case e.contract != addrOf(govID):
			reasons[pfx+"forwarded-event-of-foreign-contract"] = fmt.Sprintf("event %d was emitted by contract %s, not by the core contract", e.id, e.contract[:8])
		case e.sender != bridgeID:
			reasons[pfx+"forwarded-foreign-caller"] = fmt.Sprintf("event %d was published by a contract that is not the token bridge", e.id)
		case e.isAttest && !e.attestOK:
			reasons[pfx+"forwarded-mismatching-attestation"] = fmt.Sprintf("attestation %d does not equal the token's on-chain metadata", e.id)
		case le.block.ts != tsMs:
			reasons[pfx+"forwarded-with-foreign-timestamp"] = fmt.Sprintf("event %d: message timestamp %d is not its block's %d", e.id, tsMs, le.block.ts)
		case !s.onMain(le.block):
			reasons[pfx+"forwarded-orphaned-block-event"] = fmt.Sprintf("event %d: block %s (height %d) is not on the main chain", e.id, le.block.hash[:8], le.block.height)
		case int64(s.height()) < int64(le.block.height)+int64(e.level):
			reasons[pfx+"forwarded-before-height-floor"] = fmt.Sprintf("event %d: height %d < block %d + level %d", e.id, s.height(), le.block.height, e.level)
		case s.mainnet && e.isTransfer && s.nowMs() < le.block.ts+int64(maxU64(e.level, 205))*16000:
			reasons[pfx+"forwarded-before-mainnet-time-floor"] = fmt.Sprintf("event %d: transfer forwarded %d s after its block, floor is %d s", e.id, (s.nowMs()-le.block.ts)/1000, maxU64(e.level, 205)*16)
		default:
			k := fmt.Sprintf("%d/%s/%s", e.id, le.block.hash, path)
			s.delivered[k]++
			if path == "poll" {
				k2 := fmt.Sprintf("%d/%s/poll/inc%d", e.id, le.block.hash, s.inc)
				s.delivered[k2]++
				if s.delivered[k2] > 1 {
					s.violate("C08", "polling-path-forwarded-twice", "event %d forwarded %d times by one watcher incarnation", e.id, s.delivered[k2])
				}
			}
			s.stats.Probe("handoff-ok-" + path)
			return
		}
	}
	var keys []string
	for k := range reasons {
		keys = append(keys, k)
	}
	sort.Strings(keys)
	s.violate("C08", keys[0], "%s", reasons[keys[0]])
}

func maxU64(a, b uint64) uint64 {
	if a > b {
		return a
	}
	return b
}

// ---------------------------------------------------------------------------------------------
// harness

type alphHarness struct{ t *testing.T }

func (alphHarness) Name() string { return "alphsim" }

var (
	supOnce sync.Once
	supCtxG context.Context
)

func supervisorContext() context.Context {
	supOnce.Do(func() {
		ch := make(chan context.Context, 1)
		supervisor.New(context.Background(), zap.NewNop(), func(ctx context.Context) error {
			ch <- ctx
			supervisor.Signal(ctx, supervisor.SignalHealthy)
			<-ctx.Done()
			return ctx.Err()
		})
		supCtxG = <-ch
	})
	return supCtxG
}

func (h alphHarness) Exec(p *simkit.Program) *simkit.Result {
	res := &simkit.Result{Seed: p.Seed, Prop: p.Prop, Steps: len(p.Steps)}
	s := &alphSim{res: res, log: &simkit.Log{}, stats: simkit.NewStats(), prog: p, blocks: map[string]*simBlock{}, txIndex: map[string][]logEntry{},
		tokens: map[string]*tokenMeta{}, reqCount: map[string]int{}, delivered: map[string]int{}}
	s.pageSize = int(p.C("page", 100))
	if s.pageSize < 1 {
		s.pageSize = 1
	}
	s.mainnet = p.C("mainnet", 0) == 1
	s.poll = time.Duration(p.C("poll_ms", 1000)) * time.Millisecond
	if s.poll < 50*time.Millisecond {
		s.poll = 50 * time.Millisecond
	}
	s.tokens[mk32(0x50, 0).ToHex()] = &tokenMeta{symbol: "TKN", name: "Test token", decimals: 8}
	supCtx := supervisorContext()
	oldTransport := http.DefaultTransport
	http.DefaultTransport = s
	defer func() { http.DefaultTransport = oldTransport }()
	finished := false

	body := func(t *testing.T) {
		s.start = time.Now()
		s.mine(3)
		s.msgC = make(chan *common.MessagePublication)
		s.obsvReqC = make(chan *gossipv1.ObservationRequest, 25)
		cfg := &common.ChainConfig{GroupIndex: 0, NodeUrl: "http://alephium.sim:12973", Contracts: common.Contracts{Governance: govID.ToHex(), TokenBridge: bridgeID.ToHex()}}
		w, err := NewAlephiumWatcher(cfg.NodeUrl, "", cfg, "alphsim", s.msgC, uint(s.poll/time.Millisecond), s.obsvReqC, s.mainnet)
		if err != nil {
			res.HarnessErr = err.Error()
			return
		}
		s.watcher = w
		stopDrain := make(chan struct{})
		go func() { // plays the processor: receives what the watcher hands over
			for {
				select {
				case m := <-s.msgC:
					s.onHandoff(m)
				case <-stopDrain:
					return
				}
			}
		}()
		// plays the supervisor: restart Run one second after it returned
		mgrDone := make(chan struct{})
		var curCancel context.CancelFunc
		go func() {
			defer close(mgrDone)
			for {
				ctx, cancel := context.WithCancel(supCtx)
				s.mu.Lock()
				s.inc++
				s.incLive = false
				curCancel = cancel
				s.mu.Unlock()
				err := w.Run(ctx)
				cancel()
				s.mu.Lock()
				s.incLive = false
				s.restarts++
				if err != nil {
					s.lastErr = err.Error()
				}
				stop := s.stopping
				s.mu.Unlock()
				if stop {
					return
				}
				time.Sleep(time.Second)
			}
		}()
		s.pump(s.now() + 2*s.poll)
		for i, st := range p.Steps {
			s.step = i
			if s.aborting {
				break
			}
			s.runStep(st)
			synctest.Wait()
			s.log.Add("h=%d log=%d inc=%d handoffs=%d", s.height(), len(s.govLog), s.inc, len(s.handoffs))
			s.log.Cut(fmt.Sprintf("%d %s t=%v", i, st, s.now()))
		}
		if !s.aborting && p.Prop == "C09" {
			s.settleAndCheck()
			s.failingNodeEpilogue()
		}
		res.SimNs = int64(s.now())
		s.mu.Lock()
		var dk []string
		for k, v := range s.delivered {
			dk = append(dk, fmt.Sprintf("%s=%d", k, v))
		}
		sort.Strings(dk)
		for _, l := range dk {
			s.log.Add("delivered %s", l)
		}
		s.log.Add("restarts=%d handoffs=%d", s.restarts, len(s.handoffs))
		s.log.Cut("outcome")
		s.mu.Unlock()
		// shutdown
		s.mu.Lock()
		s.stopping = true
		s.aborting = true
		c := curCancel
		s.mu.Unlock()
		if c != nil {
			c()
		}
		for k := 0; k < 200; k++ {
			synctest.Wait()
			pr := s.pick("")
			if pr == nil {
				break
			}
			s.release(pr)
		}
		synctest.Wait()
		close(stopDrain)
		finished = true
	}
	func() {
		defer func() {
			if r := recover(); r != nil {
				if strings.Contains(fmt.Sprint(r), "deadlock") && finished {
					return // watcher goroutines blocked on errC / eventsC after their Run returned (rule D6b)
				}
				res.HarnessErr = "bubble: " + fmt.Sprint(r)
			}
		}()
		synctest.Test(h.t, body)
	}()
	for k, v := range s.reqCount {
		s.stats.ProbeN("requests-"+k, int64(v))
	}
	s.stats.ProbeN("handoffs", int64(len(s.handoffs)))
	s.stats.ProbeN("watcher-restarts", int64(s.restarts))
	s.stats.ProbeN("events-emitted", int64(s.nextEv))
	res.Faults, res.Probes = s.stats.Faults, s.stats.Probes
	res.Log, res.LogHash = s.log.Lines(), s.log.Hash()
	res.NonTrivial = len(s.handoffs) > 0 && (len(s.stats.Faults) > 0 || s.nextEv > len(s.handoffs))
	var keep []simkit.Violation
	for _, v := range res.Violations {
		if v.Prop == p.Prop {
			keep = append(keep, v)
		} else {
			res.Probes["other-property-violation:"+v.Prop+":"+v.Key]++
		}
	}
	res.Violations = keep
	return res
}

func (s *alphSim) markLive() {
	// the incarnation counts as running once it answered version+clique and polls
	s.mu.Lock()
	s.incLive = true
	s.mu.Unlock()
}

func (s *alphSim) runStep(st simkit.Step) {
	switch st.Op {
	case "blk":
		n := int(st.A)
		if n < 1 {
			n = 1
		}
		if n > 300 {
			n = 300
		}
		s.mu.Lock()
		s.mine(n)
		s.mu.Unlock()
	case "ev":
		s.markLiveIfPolling()
		s.emit(int(st.A)%9, int(st.B)%256, int(st.C), int(st.D)%4)
	case "adv":
		d := time.Duration(st.A) * time.Millisecond
		if d <= 0 {
			d = time.Millisecond
		}
		s.pump(s.now() + d)
	case "reorg":
		s.reorg(int(st.A), int(st.B)%4)
		s.stats.Fault("reorg")
		s.mu.Lock()
		s.lastFaultAt = s.now()
		s.mu.Unlock()
	case "race":
		s.mu.Lock()
		s.raceArm = append(s.raceArm, raceSpec{when: int(st.D) % 2, kind: int(st.A) % 7, level: int(st.B) % 256, variant: int(st.C)})
		s.mu.Unlock()
	case "fault":
		kinds := []string{"count", "page", "height", "header", "canonical", "txstatus", "txevents", "multicall", "version", "clique"}
		k := kinds[int(st.A)%len(kinds)]
		s.mu.Lock()
		s.nFaults++
		s.faults = append(s.faults, faultWindow{kind: k, code: int(st.B) % 4, serial: s.nFaults, from: s.now(), until: s.now() + time.Duration(1+st.C%3)*2*s.poll})
		s.mu.Unlock()
	case "reobs":
		s.reobserve(st)
	case "tokmut":
		// the token contract reports other metadata from now on (an upgradable token, or a mutable
		// field): attestations are judged against what the contract reports at that moment
		s.mu.Lock()
		tokHex := mk32(0x50, 0).ToHex()
		m := s.tokens[tokHex]
		nm := &tokenMeta{symbol: fmt.Sprintf("TK%d", st.A%7), name: m.name + "+", decimals: 6 + int(st.A%3)}
		s.tokens[tokHex] = nm
		s.prevMeta = m
		for _, le := range s.govLog {
			e := le.ev
			if e.attTok != tokHex {
				continue
			}
			// the watcher may look the token up at any moment between seeing the event and handing it
			// over (the statement's quantifier does not make metadata change over time, so no moment is
			// prescribed): an attestation is acceptable if it equalled what the contract reported at
			// some moment of its life, and it is only owed if it did so all the time
			e.attestOK = e.attestOK || (e.attSym == nm.symbol && e.attName == nm.name && e.attDec == nm.decimals && len(e.payload) == 100)
			e.expectFwd = false
		}
		s.stats.Fault("token-metadata-changed")
		s.mu.Unlock()
	}
}

func (s *alphSim) markLiveIfPolling() {
	s.mu.Lock()
	if s.reqCount["count"] > 0 {
		s.incLive = true
	}
	s.mu.Unlock()
}

// reobserve injects one re-observation request and runs the watcher's handler to completion at
// one fake instant, releasing only that handler's requests (so that hand-offs can be attributed).
func (s *alphSim) reobserve(st simkit.Step) {
	synctest.Wait()
	var tx []byte
	chain := uint32(255)
	s.mu.Lock()
	n := len(s.txs)
	s.mu.Unlock()
	switch st.B % 6 {
	case 0, 1, 2:
		if n == 0 {
			return
		}
		k := int(st.A) % n
		if st.A < 0 {
			k = n - 1 // the most recent transaction
		}
		tx, _ = hex.DecodeString(s.txs[k].id)
	case 3:
		tx = crypto.Keccak256([]byte("unknown"), []byte{byte(st.A)})
		s.stats.Fault("reobserve-unknown-tx")
	case 4:
		if n == 0 {
			return
		}
		tx, _ = hex.DecodeString(s.txs[int(st.A)%n].id)
		chain = 2
		s.stats.Fault("reobserve-wrong-chain")
	case 5:
		tx = []byte{1, 2, 3}
		s.stats.Fault("reobserve-short-hash")
	}
	select {
	case s.obsvReqC <- &gossipv1.ObservationRequest{ChainId: chain, TxHash: tx}:
	default:
		return
	}
	s.mu.Lock()
	s.reobsPhase = true
	s.mu.Unlock()
	raced := false
	for k := 0; k < 400; k++ {
		synctest.Wait()
		p := s.pick("reobserve")
		if p == nil {
			break
		}
		kind := reqKind(p.req.URL.Path)
		s.release(p)
		if st.C == 1 && kind == "txstatus" && !raced && len(tx) == 32 {
			// the chain moves on right after the transaction-status answer: the block just reported as
			// the confirmed one is orphaned (the transaction is not re-included), and the node may
			// fail the main-chain query that follows
			raced = true
			synctest.Wait()
			s.orphanTx(hex.EncodeToString(tx), int(st.D))
		}
	}
	s.mu.Lock()
	s.forceFault = nil
	s.mu.Unlock()
	synctest.Wait()
	// a request the watcher did not pick up now (it is restarting) is withdrawn, otherwise it would
	// be handled later, outside the phase that attributes hand-offs to the re-observation path
	select {
	case <-s.obsvReqC:
		s.stats.Probe("reobservation-request-withdrawn")
	default:
	}
	s.mu.Lock()
	s.reobsPhase = false
	s.mu.Unlock()
	s.stats.Probe("reobservation-requests")
}

func (s *alphSim) orphanTx(id string, code int) {
	s.mu.Lock()
	depth := 0
	for _, le := range s.txIndex[id] {
		if s.onMain(le.block) {
			depth = int(s.height()-le.block.height) + 1
		}
	}
	s.mu.Unlock()
	if depth == 0 {
		return
	}
	s.reorg(depth, 0)
	s.mu.Lock()
	if code%5 != 4 {
		s.forceFault = map[string]int{"canonical": code % 4}
	}
	s.stats.Fault("reorg-after-the-transaction-status-answer")
	s.mu.Unlock()
}

// settleAndCheck (C09): faults have stopped; mine blocks and let time pass until every pending
// message must have been confirmed, then demand exactly-once delivery by the polling path.
func (s *alphSim) settleAndCheck() {
	s.mu.Lock()
	// an armed emission that has not fired yet is dropped: fired during the settle phase it would be
	// a message the waiting time below was not computed for
	s.raceArm = nil
	maxLevel := uint64(0)
	for _, le := range s.govLog {
		if le.ev.expectFwd && le.ev.level > maxLevel {
			maxLevel = le.ev.level
		}
	}
	s.mu.Unlock()
	floor := time.Duration(maxLevel) * 16 * time.Second
	if s.mainnet {
		floor = time.Duration(maxU64(maxLevel, 205)) * 16 * time.Second
	}
	// heights first, then time; blocks keep coming while time passes
	rounds := 6
	per := (floor + 10*s.poll + 5*time.Second) / time.Duration(rounds)
	for r := 0; r < rounds && !s.aborting; r++ {
		s.mu.Lock()
		s.mine(int(maxLevel)/rounds + 2)
		s.mu.Unlock()
		s.pump(s.now() + per)
	}
	if s.aborting {
		return
	}
	s.mu.Lock()
	defer s.mu.Unlock()
	for _, le := range s.govLog {
		e := le.ev
		if !e.expectFwd || !s.onMain(le.block) {
			continue
		}
		if e.emittedInc < 0 {
			continue // emitted before the watcher was polling
		}
		n := 0
		for k, v := range s.delivered {
			if strings.HasPrefix(k, fmt.Sprintf("%d/%s/poll", e.id, le.block.hash)) && !strings.Contains(k, "/inc") {
				n += v
			}
		}
		switch {
		case n == 0:
			why := fmt.Sprintf("watcher restarted %d time(s), last error: %s", s.restarts, s.lastErr)
			s.violate("C09", "final-message-not-observed", "well-formed token-bridge event %d (kind %d/%d, level %d, seq %d, target %d) in main-chain block %d was never handed over by the polling path within %v after the last fault; %s",
				e.id, e.kind, e.variant, e.level, e.sequence, e.targetChain, le.block.height, floor+10*s.poll+5*time.Second, why)
		case n > 1:
			s.violate("C09", "final-message-observed-twice", "event %d handed over %d times by the polling path", e.id, n)
		default:
			s.stats.Probe("final-message-observed-once")
		}
	}
	if s.restarts > 0 && !s.injectedFaultSinceStart {
		s.stats.Probe("watcher-restarted-without-rpc-fault")
	}
}

// failingNodeEpilogue (after the liveness verdict): the node starts failing one kind of request while
// a new event is waiting to be fetched. Whatever the watcher does about it (it restarts, by design),
// it must not hammer the node: the livelock detector in release() watches.
func (s *alphSim) failingNodeEpilogue() {
	if s.prog.C("epilogue", 0) == 1 && len(s.res.Violations) == 0 && !s.aborting {
		kinds := []string{"page", "page", "count", "header", "canonical", "height"}
		k := kinds[int(s.prog.C("epilogue_kind", 0))%len(kinds)]
		s.emit(0, 1, 0, 0)
		s.mu.Lock()
		s.nFaults++
		s.faults = append(s.faults, faultWindow{kind: k, code: int(s.prog.C("epilogue_code", 0)) % 4, serial: s.nFaults, from: s.now(), until: s.now() + 6*s.poll})
		s.mu.Unlock()
		s.pump(s.now() + 8*s.poll)
		s.stats.Probe("failing-node-epilogue")
		// whatever the watcher did about the failing node, it must not hand old messages over again
		s.mu.Lock()
		for _, le := range s.govLog {
			n := 0
			for k, v := range s.delivered {
				if strings.HasPrefix(k, fmt.Sprintf("%d/%s/poll", le.ev.id, le.block.hash)) && !strings.Contains(k, "/inc") {
					n += v
				}
			}
			if n > 1 {
				s.violate("C09", "final-message-observed-twice", "event %d handed over %d times by the polling path (the second time after the node had started failing requests)", le.ev.id, n)
			}
		}
		s.mu.Unlock()
	}
}

func (alphHarness) Gen(seed uint64, prop, tier string) *simkit.Program {
	r := simkit.NewRng(seed, "alphsim/"+prop)
	p := &simkit.Program{Cfg: map[string]int64{}}
	add := func(op string, a, b, c, d int64) {
		p.Steps = append(p.Steps, simkit.Step{Op: op, A: a, B: b, C: c, D: d})
	}
	p.Cfg["page"] = int64([]int{1, 2, 3, 5, 100}[r.Intn(5)])
	p.Cfg["poll_ms"] = int64([]int{200, 1000, 3000, 10000}[r.Intn(4)])
	mainnet := r.P(0.15)
	if prop == "C08" {
		mainnet = r.P(0.35)
	}
	if mainnet {
		p.Cfg["mainnet"] = 1
	}
	if prop == "C09" && r.P(0.3) {
		p.Cfg["epilogue"], p.Cfg["epilogue_kind"], p.Cfg["epilogue_code"] = 1, int64(r.Intn(6)), int64(r.Intn(4))
	}
	level := func() int64 {
		switch r.Pick(5, 3, 1) {
		case 0:
			return int64(r.Intn(3))
		case 1:
			return int64(r.Range(3, 10))
		default:
			return int64(r.Range(10, 40))
		}
	}
	sec := int64(1000)
	n := 4 + r.Intn(14)
	kindW := []int{8, 3, 2, 3, 4, 3, 2, 0, 1}
	if prop == "C08" {
		kindW = []int{8, 3, 3, 4, 2, 1, 1, 4, 2}
	}
	for i := 0; i < n; i++ {
		switch r.Pick(8, 4, 5, 2, 2, 2, 3) {
		case 0:
			more := int64(0)
			if r.P(0.25) {
				more = int64(r.Range(1, 3))
			}
			add("ev", int64(r.Pick(kindW...)), level(), int64(r.Intn(48)), more)
		case 1:
			add("blk", int64(r.Range(1, 12)), 0, 0, 0)
			if r.P(0.12) {
				add("ev", 1, level(), int64(r.Intn(48)), 0)
				add("adv", 2*p.Cfg["poll_ms"], 0, 0, 0)
				add("tokmut", int64(r.Intn(21)), 0, 0, 0)
				add("ev", int64(1+r.Intn(2)), level(), int64(r.Intn(48)), 0)
				if r.P(0.6) {
					add("ev", 1, level(), 1000+int64(r.Intn(48)), 0) // attests the metadata of before the change
				}
			}
		case 2:
			switch r.Pick(4, 3, 1) {
			case 0:
				add("adv", int64(r.Range(1, 20))*sec, 0, 0, 0)
			case 1:
				add("adv", int64(r.Range(20, 200))*sec, 0, 0, 0)
			default:
				add("adv", int64(r.Range(200, 4000))*sec, 0, 0, 0)
			}
		case 3:
			add("reorg", int64(r.Range(1, 4)), int64(r.Intn(4)), 0, 0)
		case 4:
			add("race", int64(r.Pick(6, 1, 1, 2, 3, 0, 1)), level(), int64(r.Intn(48)), int64(r.Intn(2)))
			add("ev", int64(r.Pick(kindW...)), level(), int64(r.Intn(48)), 0)
			add("adv", 2*p.Cfg["poll_ms"], 0, 0, 0)
		case 5:
			if prop == "C08" {
				add("fault", int64(r.Intn(10)), int64(r.Intn(4)), int64(r.Intn(3)), 0)
			} else {
				add("blk", int64(r.Range(1, 5)), 0, 0, 0)
			}
		case 6:
			if prop == "C08" {
				add("reobs", int64(r.Intn(16)), int64(r.Intn(6)), int64(r.Pick(4, 1)), int64(r.Intn(5)))
			} else {
				add("adv", int64(r.Range(1, 40))*sec, 0, 0, 0)
			}
		}
	}
	if prop == "C09" && r.P(0.15) {
		// one page with several attestation-shaped events of foreign contracts whose metadata calls
		// are slow (each well within the per-request deadline), followed by a genuine attestation
		for i := 0; i < 3; i++ {
			add("ev", 5, level(), 25, 0)
		}
		add("ev", 1, level(), int64(r.Intn(48)), 0)
		add("adv", 3*p.Cfg["poll_ms"]+15000, 0, 0, 0)
	}
	if prop == "C08" && r.P(0.3) {
		// an event that has its block confirmations but still waits out its confirmation time, while
		// its block is replaced by a sibling branch of the same height and no further block arrives
		l := int64(r.Range(1, 3))
		add("ev", 0, l, int64(r.Intn(48)), 0)
		add("blk", l+int64(r.Intn(2)), 0, 0, 0)
		add("adv", 3*p.Cfg["poll_ms"], 0, 0, 0)
		add("reorg", l+int64(r.Range(1, 3)), int64(2+r.Intn(2)), 0, 0)
		add("adv", l*16*sec+int64(r.Range(1, 30))*sec, 0, 0, 0)
	}
	if prop == "C08" && r.P(0.3) {
		// a re-observation request arrives when the chain is exactly one block short of the message's
		// consistency level, long after the confirmation time has passed (the chain stalled)
		l := int64(r.Range(1, 6))
		add("ev", 0, l, int64(r.Intn(48))*4, 0)
		if l > 1 {
			add("blk", l-1, 0, 0, 0)
		}
		add("adv", l*16*sec+int64(r.Range(5, 60))*sec, 0, 0, 0)
		add("reobs", -1, 0, 0, 0)
		add("blk", 1, 0, 0, 0)
		add("reobs", -1, 0, 0, 0)
	}
	if prop == "C08" && r.P(0.25) {
		// re-observation requests inside the last second of the confirmation time of a block whose
		// timestamp has a millisecond part (block timestamps are milliseconds), and right after it
		l := int64(r.Range(1, 6))
		add("adv", int64(r.Range(1, 999)), 0, 0, 0)
		add("ev", 0, l, int64(r.Intn(48))*4, 0)
		add("blk", l+int64(r.Intn(3)), 0, 0, 0)
		dur := l * 16 * sec
		if mainnet {
			dur = 205 * 16 * sec
		}
		delta := int64(r.Range(1, 999))
		add("adv", dur-delta, 0, 0, 0)
		add("reobs", -1, 0, 0, 0)
		add("adv", delta, 0, 0, 0)
		add("reobs", -1, 0, 0, 0)
	}
	if prop == "C08" {
		// let pending messages mature, re-observe some again afterwards
		add("blk", int64(r.Range(5, 45)), 0, 0, 0)
		add("adv", int64(r.Range(30, 800))*sec, 0, 0, 0)
		if mainnet {
			add("adv", 3400*sec, 0, 0, 0)
		}
		for i := 0; i < r.Intn(4); i++ {
			add("reobs", int64(r.Intn(16)), int64(r.Intn(3)), int64(r.Pick(2, 1)), int64(r.Intn(5)))
		}
	}
	return p
}

func TestVerifSim(t *testing.T) {
	if os.Getenv("VERIF_OUT") == "" {
		t.Skip("verification harness: run through /verif/bin/check")
	}
	if msg := simkit.Main(alphHarness{t}); msg != "" {
		fmt.Println("HARNESS-TROUBLE: " + msg)
		t.Fatal(msg)
	}
}
