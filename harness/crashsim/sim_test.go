//go:build verif

// crashsim (C16): kill-point simulation for the VAA store. Real code: db.Open, StoreSignedVAA,
// GetSignedVAABytes, Close and badger's recovery, on real files. The fault is a process kill:
// the page cache survives, so the post-kill disk state is (a) the directory as it is at the
// instant of the kill - taken as a sparse snapshot right after an acknowledgement - or (b) that
// state plus a prefix of the bytes the in-flight write was adding (torn write), synthesised from
// the difference between two consecutive snapshots. Every crash state is reopened with the real
// db.Open and compared with the acknowledged-writes model; the run then continues on a recovered
// copy, so kills accumulate on the same store. See DESIGN.md C16.
package db

import (
	"bufio"
	"bytes"
	"encoding/json"
	"fmt"
	"os"
	"os/exec"
	"path/filepath"
	"runtime"
	"sort"
	"strconv"
	"strings"
	"sync"
	"syscall"
	"testing"
	"time"

	"github.com/alephium/wormhole-fork/node/pkg/vaa"
	"github.com/ethereum/go-ethereum/crypto"

	"verif.local/simkit"
	"verif.local/simkit/ref"
)

const crashUniverse = 11

// crashID: a small universe of identifiers. 8-10 continue the stream of 0. 6 and 7 repeat the emitter and sequence of 3 and 0 with
// another target chain (one of each pair addresses target chain 0, "all chains"): sequences count
// per target chain, so these are four different messages.
func crashID(i int64) vaa.VAAID {
	if i < 0 {
		i = -i
	}
	i %= crashUniverse
	switch i {
	case 6:
		return vaa.VAAID{EmitterChain: 255, EmitterAddress: vaa.Address{0xaa, 1}, TargetChain: 2, Sequence: 0}
	case 7:
		return vaa.VAAID{EmitterChain: 2, EmitterAddress: vaa.Address{0xaa, 0}, TargetChain: 0, Sequence: 0}
	case 8, 9, 10:
		// the stream of identifier 0 goes on to sequences 9, 10 and 11 (two-digit numbers sort before 9 as text)
		return vaa.VAAID{EmitterChain: 2, EmitterAddress: vaa.Address{0xaa, 0}, TargetChain: 255, Sequence: uint64(i + 1)}
	}
	return vaa.VAAID{EmitterChain: vaa.ChainID([]uint16{2, 255, 2, 255, 10, 2}[i]), EmitterAddress: vaa.Address{0xaa, byte(i / 3)}, TargetChain: vaa.ChainID([]uint16{255, 2, 25, 0, 2, 255}[i]), Sequence: uint64(i % 3)}
}

// stormVAA: identifiers of their own (never touched by the other steps) for the concurrent-lookup step.
func stormVAA(n, variant int64) (*vaa.VAA, []byte) {
	return crashVAAWithID(vaa.VAAID{EmitterChain: 77, EmitterAddress: vaa.Address{0xcc}, TargetChain: 5, Sequence: uint64(n)}, n, variant)
}

func crashVAA(i, variant int64) (*vaa.VAA, []byte) { return crashVAAWithID(crashID(i), i, variant) }

func crashVAAWithID(id vaa.VAAID, i, variant int64) (*vaa.VAA, []byte) {
	plen := []int{12, 300, 1, 999, 1700, 64, 0, 1001}[int(variant)%8] // 0: a message with an empty payload is legal
	payload := make([]byte, plen)
	for k := range payload {
		payload[k] = byte(int(variant)*13 + k*5 + int(i))
	}
	rb := ref.Body{TimestampSec: uint32(1_700_000_000 + variant), Nonce: uint32(variant), EmitterChain: uint16(id.EmitterChain), TargetChain: uint16(id.TargetChain),
		Emitter: id.EmitterAddress, Sequence: id.Sequence, Consistency: 1, Payload: payload}
	rv := &ref.VAA{Version: 1, SetIndex: uint32(variant % 3), Body: rb}
	v := &vaa.VAA{Version: 1, GuardianSetIndex: uint32(variant % 3), Timestamp: time.Unix(int64(rb.TimestampSec), 0), Nonce: rb.Nonce, Sequence: id.Sequence, ConsistencyLevel: 1,
		EmitterChain: id.EmitterChain, TargetChain: id.TargetChain, EmitterAddress: id.EmitterAddress, Payload: payload}
	for k := 0; k < 1+int(variant)%3; k++ {
		var s ref.Sig
		s.Index = uint8(k)
		if (variant/3)%2 == 1 {
			// signatures are not always in ascending guardian order (a peer's copy is stored as received):
			// what comes back must be what was stored, byte for byte
			s.Index = uint8(17 - 5*k)
		}
		h := crypto.Keccak256([]byte{byte(variant), byte(k), byte(i)})
		copy(s.Sig[:], append(append(h, h...), 0))
		rv.Sigs = append(rv.Sigs, s)
		v.Signatures = append(v.Signatures, &vaa.Signature{Index: s.Index, Signature: s.Sig})
	}
	return v, ref.Encode(rv)
}

type crashWorld struct {
	storeRace           string
	stormSeq            int64
	aborted             bool
	res                 *simkit.Result
	log                 *simkit.Log
	stats               *simkit.Stats
	base                string
	live                string
	d                   *Database
	acked               map[int64][]byte // model: last acknowledged bytes per id
	step                int
	nDir                int
	prev                string // snapshot before the last store (S_{k-1}), with its model
	prevAck             map[int64][]byte
	cur                 string // snapshot right after the last store's acknowledgement (S_k)
	lastID              int64
	lastNew             []byte
	states, torn, kills int
}

func (w *crashWorld) violate(key, format string, a ...interface{}) {
	for _, v := range w.res.Violations {
		if v.Key == key {
			return
		}
	}
	w.res.Violations = append(w.res.Violations, simkit.Violation{Prop: "C16", Key: key, Step: w.step, Detail: fmt.Sprintf(format, a...)})
}

func (w *crashWorld) newDir(tag string) string {
	w.nDir++
	return filepath.Join(w.base, fmt.Sprintf("%s%d", tag, w.nDir))
}

// snapshot copies a store directory. The source may belong to an open store whose background
// workers (flush after recovery, compaction of level 0 once enough tables have accumulated) add and
// delete files at their own pace: a copy taken across such a change is not a state any kill can
// leave. The directory is therefore listed (name, size, modification time) before and after the
// copy, and the copy is repeated until nothing moved in between.
func snapshot(src, dst string) error {
	var last error
	for try := 0; try < 40; try++ {
		before := dirStamp(src)
		os.RemoveAll(dst)
		out, err := exec.Command("cp", "-r", "--sparse=always", src, dst).CombinedOutput()
		if err == nil && before == dirStamp(src) {
			return nil
		}
		if err != nil {
			last = fmt.Errorf("cp: %v %s", err, out)
		} else {
			last = fmt.Errorf("directory %s kept changing while it was copied", src)
		}
		time.Sleep(10 * time.Millisecond)
	}
	return last
}

func dirStamp(dir string) string {
	es, err := os.ReadDir(dir)
	if err != nil {
		return "unreadable: " + err.Error()
	}
	var sb strings.Builder
	for _, e := range es {
		fi, err := e.Info()
		if err != nil {
			fmt.Fprintf(&sb, "%s gone;", e.Name())
			continue
		}
		fmt.Fprintf(&sb, "%s %d %d;", e.Name(), fi.Size(), fi.ModTime().UnixNano())
	}
	return sb.String()
}

func copyModel(m map[int64][]byte) map[int64][]byte {
	o := map[int64][]byte{}
	for k, v := range m {
		o[k] = v
	}
	return o
}

const scanLimit = 4 << 20

// walDiff returns, per file that differs between two snapshots, the differing byte range
// (within the first scanLimit bytes) and the new bytes.
type fileDiff struct {
	name string
	off  int64
	data []byte
}

func walDiff(a, b string) ([]fileDiff, error) {
	ents, err := os.ReadDir(b)
	if err != nil {
		return nil, err
	}
	var out []fileDiff
	for _, e := range ents {
		if e.Name() == "LOCK" {
			continue
		}
		rb, err := readHead(filepath.Join(b, e.Name()))
		if err != nil {
			return nil, err
		}
		ra, err := readHead(filepath.Join(a, e.Name()))
		if err != nil {
			ra = nil // new file
		}
		if bytes.Equal(ra, rb) {
			continue
		}
		n := len(rb)
		first, last := -1, -1
		for i := 0; i < n; i++ {
			var x byte
			if i < len(ra) {
				x = ra[i]
			}
			if x != rb[i] {
				if first < 0 {
					first = i
				}
				last = i
			}
		}
		if first < 0 {
			continue
		}
		out = append(out, fileDiff{e.Name(), int64(first), append([]byte(nil), rb[first:last+1]...)})
	}
	sort.Slice(out, func(i, j int) bool { return out[i].name < out[j].name })
	return out, nil
}

func readHead(path string) ([]byte, error) {
	f, err := os.Open(path)
	if err != nil {
		return nil, err
	}
	defer f.Close()
	buf := make([]byte, scanLimit)
	n, _ := f.ReadAt(buf, 0)
	// trim trailing zeros (sparse tail)
	for n > 0 && buf[n-1] == 0 {
		n--
	}
	return buf[:n], nil
}

// checkState reopens one crash state with the real db.Open and compares it with the model.
// inflight < 0: everything in `acked` must be there. Otherwise id `inflight` may hold its old
// value (oldOK), or newBytes. Returns what the store holds for the in-flight id.
func (w *crashWorld) checkState(dir, what string, acked map[int64][]byte, inflight int64, newBytes []byte, keepOpen bool) (*Database, []byte, bool) {
	w.states++
	d, err := Open(dir)
	if err != nil {
		w.violate("store-does-not-reopen-after-kill", "%s: db.Open failed: %v", what, err)
		return nil, nil, false
	}
	var got []byte
	for i := int64(0); i < crashUniverse; i++ {
		b, err := d.GetSignedVAABytes(crashID(i))
		if err != nil && err != ErrVAANotFound {
			w.violate("lookup-error-after-kill", "%s: lookup %d: %v", what, i, err)
			continue
		}
		if i == inflight {
			got = b
			if !(bytes.Equal(b, acked[i]) || bytes.Equal(b, newBytes)) {
				w.violate("garbage-after-kill", "%s: in-flight id %d holds %d bytes that are neither the previous nor the new VAA", what, i, len(b))
			}
			continue
		}
		if !bytes.Equal(b, acked[i]) {
			if acked[i] != nil && b == nil {
				w.violate("acknowledged-write-lost", "%s: id %d was acknowledged but is not found after the kill", what, i)
			} else if acked[i] != nil {
				w.violate("acknowledged-write-altered", "%s: id %d returns other bytes than the acknowledged VAA", what, i)
			} else {
				w.violate("phantom-entry-after-kill", "%s: id %d was never stored but returns %d bytes", what, i, len(b))
			}
		}
	}
	if keepOpen {
		return d, got, true
	}
	if err := d.Close(); err != nil {
		w.violate("close-after-recovery-failed", "%s: %v", what, err)
	}
	return nil, got, true
}

func (w *crashWorld) run(p *simkit.Program) {
	for i, st := range p.Steps {
		w.step = i
		switch st.Op {
		case "store":
			v, exp := crashVAA(st.A, st.B)
			id := st.A % crashUniverse
			// rotate snapshots: S_{k-1} := S_k
			if w.prev != "" {
				os.RemoveAll(w.prev)
			}
			w.prev, w.prevAck = w.cur, copyModel(w.acked)
			if w.prev == "" {
				w.prev = w.newDir("snap")
				if err := snapshot(w.live, w.prev); err != nil {
					w.res.HarnessErr = err.Error()
					return
				}
			}
			if err := w.d.StoreSignedVAA(v); err != nil {
				w.violate("store-failed", "StoreSignedVAA: %v", err)
				return
			}
			// acknowledged: snapshot before anything else happens
			w.cur = w.newDir("snap")
			if err := snapshot(w.live, w.cur); err != nil {
				w.res.HarnessErr = err.Error()
				return
			}
			w.acked[id] = exp
			w.lastID, w.lastNew = id, exp
			w.log.Add("store %d variant %d (%d bytes)", id, st.B, len(exp))
		case "get":
			id := st.A % crashUniverse
			b, err := w.d.GetSignedVAABytes(crashID(id))
			if w.acked[id] == nil {
				if err != ErrVAANotFound {
					w.violate("phantom-entry", "id %d never stored, lookup err=%v", id, err)
				}
			} else if err != nil || !bytes.Equal(b, w.acked[id]) {
				w.violate("acknowledged-write-not-readable", "id %d: err=%v", id, err)
			}
			w.log.Add("get %d", id)
		case "closedstore":
			// shutdown order: the store is closed while a writer still has a VAA in hand. Whatever the
			// call answers, an answer "stored" is an acknowledgement like any other.
			id := st.A % crashUniverse
			v, exp := crashVAA(st.A, st.B)
			if err := w.d.Close(); err != nil {
				w.violate("close-failed", "Close: %v", err)
				return
			}
			err := w.d.StoreSignedVAA(v)
			w.stats.Fault("store-after-close")
			if err == nil {
				w.acked[id] = exp
			}
			w.dropSnapshots()
			d, oerr := Open(w.live)
			if oerr != nil {
				w.violate("store-does-not-reopen-after-kill", "reopen after a clean close: %v", oerr)
				return
			}
			w.d = d
			w.verifyLive("after store-on-closed-store (answered " + fmt.Sprint(err) + ") and reopen")
			w.log.Add("closedstore %d acknowledged=%v", id, err == nil)
		case "storm":
			// lookups from other goroutines (public RPC, processor) race with the writer: for each of a
			// series of identifiers that are not stored yet, a goroutine polls while the VAA is written.
			// Real parallelism decides the interleaving, the oracle does not depend on it: whatever was
			// acknowledged is readable afterwards, in this process and after a reopen.
			n := 20 + int(st.A%40)
			prevProcs := runtime.GOMAXPROCS(4)
			type stormed struct {
				id  vaa.VAAID
				exp []byte
			}
			var done []stormed
			for k := 0; k < n; k++ {
				w.stormSeq++
				v, exp := stormVAA(w.stormSeq, st.C+int64(k))
				id := *VaaIDFromVAA(v)
				stop := make(chan struct{})
				var wg sync.WaitGroup
				for g := 0; g < 2; g++ {
					wg.Add(1)
					go func() {
						defer wg.Done()
						for {
							select {
							case <-stop:
								return
							default:
								_, _ = w.d.GetSignedVAABytes(id)
							}
						}
					}()
				}
				runtime.Gosched()
				// every second round a second writer stores the same VAA at the same moment (a peer's copy
				// arriving while the node's own quorum completes): each acknowledgement is one
				var err2 error
				dup := k%2 == 1
				dupDone := make(chan struct{})
				if dup {
					go func() {
						defer close(dupDone)
						if err2 = w.d.StoreSignedVAA(v); err2 == nil {
							if b, lerr := w.d.GetSignedVAABytes(id); lerr != nil || !bytes.Equal(b, exp) {
								w.storeRace = fmt.Sprintf("the second of two concurrent stores of one identifier was acknowledged, but a lookup right after that says: %v", lerr)
							}
						}
					}()
				} else {
					close(dupDone)
				}
				err := w.d.StoreSignedVAA(v)
				if err == nil {
					if b, lerr := w.d.GetSignedVAABytes(id); lerr != nil || !bytes.Equal(b, exp) {
						w.storeRace = fmt.Sprintf("a store was acknowledged, but a lookup right after that says: %v", lerr)
					}
				}
				<-dupDone
				close(stop)
				wg.Wait()
				if w.storeRace != "" {
					w.violate("acknowledged-write-not-readable", "%s", w.storeRace)
					break
				}
				if err2 != nil {
					w.violate("store-failed", "concurrent StoreSignedVAA of the same VAA: %v", err2)
					break
				}
				if err != nil {
					w.violate("store-failed", "StoreSignedVAA during concurrent lookups: %v", err)
					break
				}
				done = append(done, stormed{id, exp})
			}
			runtime.GOMAXPROCS(prevProcs)
			w.stats.Fault("concurrent-lookups")
			for _, e := range done {
				if b, err := w.d.GetSignedVAABytes(e.id); err != nil || !bytes.Equal(b, e.exp) {
					w.violate("acknowledged-write-not-readable", "a VAA stored while other goroutines looked its identifier up was acknowledged, but the lookup afterwards says: %v", err)
					break
				}
			}
			w.dropSnapshots()
			w.verifyLive("after stores racing with lookups")
			w.log.Add("storm %d stores", n)
		case "realkill", "syskill":
			if st.Op == "syskill" && !straceOK() {
				w.stats.Probe("strace-unavailable")
				break
			}
			w.realKill(st)
			if w.res.HarnessErr != "" || w.aborted {
				return
			}
		case "kill":
			if w.cur == "" || w.prev == "" {
				w.log.Add("kill skipped (nothing in flight)")
				break
			}
			w.kills++
			w.stats.Fault("kill")
			// (1) kill right after the acknowledgement of the last store
			w.checkState2(w.cur, "kill-after-ack", w.acked, -1, nil)
			// (2) kill right before that store started
			w.checkState2(w.prev, "kill-before-write", w.prevAck, -1, nil)
			// (3) kill inside the write: torn prefixes of what the store added
			diffs, err := walDiff(w.prev, w.cur)
			if err != nil {
				w.res.HarnessErr = "walDiff: " + err.Error()
				return
			}
			var names []string
			total := 0
			for _, d := range diffs {
				names = append(names, fmt.Sprintf("%s@%d+%d", d.name, d.off, len(d.data)))
				total += len(d.data)
			}
			w.log.Add("in-flight write touched %s", strings.Join(names, ","))
			if len(diffs) == 0 {
				w.violate("acknowledged-write-left-no-trace", "store of id %d was acknowledged but no file of the store directory changed", w.lastID)
			}
			cuts := cutPoints(total, st.A, int(st.B))
			var cont string
			contAck := w.prevAck
			for ci, cut := range cuts {
				dir := w.newDir("torn")
				if err := snapshot(w.prev, dir); err != nil {
					w.res.HarnessErr = err.Error()
					return
				}
				if err := applyPrefix(dir, diffs, cut); err != nil {
					w.res.HarnessErr = "applyPrefix: " + err.Error()
					return
				}
				w.torn++
				w.stats.Fault("torn-write")
				keep := ci == int(st.C)%len(cuts)
				if keep {
					cont = dir
					// verify on a copy, continue on the original torn directory
					probe := w.newDir("probe")
					snapshot(dir, probe)
					w.checkState2(probe, fmt.Sprintf("torn-write cut %d of %d bytes", cut, total), w.prevAck, w.lastID, w.lastNew)
					os.RemoveAll(probe)
				} else {
					w.checkState2(dir, fmt.Sprintf("torn-write cut %d of %d bytes", cut, total), w.prevAck, w.lastID, w.lastNew)
					os.RemoveAll(dir)
				}
			}
			// continue the workload on a recovered store: a torn one, or the after-ack one
			w.d.Close()
			os.RemoveAll(w.live)
			if cont == "" || st.D%3 == 0 {
				if cont != "" {
					os.RemoveAll(cont)
				}
				cont = w.newDir("live")
				snapshot(w.cur, cont)
				contAck = w.acked
			}
			d, got, ok := w.checkState(cont, "continue-on-recovered-store", contAck, w.lastID, w.lastNew, true)
			if !ok {
				return
			}
			// Recovery leaves badger flushing the replayed memtable in the background; a directory
			// copy taken meanwhile would not be a state any kill can leave. Close cleanly and reopen
			// so that the next snapshots are taken from a quiescent store.
			if err := d.Close(); err != nil {
				w.violate("close-after-recovery-failed", "%v", err)
				return
			}
			d, err = Open(cont)
			if err != nil {
				w.violate("store-does-not-reopen-after-kill", "reopen of the recovered store: %v", err)
				return
			}
			w.live, w.d = cont, d
			w.acked = copyModel(contAck)
			if got != nil {
				w.acked[w.lastID] = got
			} else {
				delete(w.acked, w.lastID)
			}
			os.RemoveAll(w.prev)
			os.RemoveAll(w.cur)
			w.prev, w.cur = "", ""
			w.log.Add("kill: %d cuts, continue with in-flight=%v", len(cuts), got != nil && bytes.Equal(got, w.lastNew))
		}
		w.log.Cut(fmt.Sprintf("%d %s", i, st))
		if len(w.res.Violations) > 0 || w.res.HarnessErr != "" {
			return
		}
	}
}

func (w *crashWorld) checkState2(dir, what string, acked map[int64][]byte, inflight int64, nb []byte) {
	// recovery modifies the directory (badger truncates/rewrites); always work on a scratch copy
	probe := w.newDir("probe")
	if err := snapshot(dir, probe); err != nil {
		w.res.HarnessErr = err.Error()
		return
	}
	w.checkState(probe, what, acked, inflight, nb, false)
	os.RemoveAll(probe)
}

// cutPoints: all cuts when the write is small, else a seeded sample including both ends.
func cutPoints(total int, seed int64, max int) []int {
	if max <= 0 {
		max = 6
	}
	if total <= 0 {
		return []int{0}
	}
	set := map[int]bool{1: true, total - 1: true, total / 2: true}
	// evenly spaced cuts make sure every entry-sized stretch of the in-flight bytes is hit (a store
	// that commits in two transactions shows its window this way), random ones vary the rest
	for k := 1; k < 8; k++ {
		if c := total * k / 8; c > 0 && c < total {
			set[c] = true
		}
	}
	r := simkit.NewRng(uint64(seed), "cuts")
	for len(set) < max+8 && len(set) < total-1 {
		set[1+r.Intn(total-1)] = true
	}
	var out []int
	for c := range set {
		if c > 0 && c < total {
			out = append(out, c)
		}
	}
	sort.Ints(out)
	if len(out) == 0 {
		out = []int{0}
	}
	return out
}

// applyPrefix writes the first `cut` changed bytes (files in name order, ascending offsets).
func applyPrefix(dir string, diffs []fileDiff, cut int) error {
	for _, d := range diffs {
		if cut <= 0 {
			break
		}
		n := len(d.data)
		if n > cut {
			n = cut
		}
		f, err := os.OpenFile(filepath.Join(dir, d.name), os.O_RDWR|os.O_CREATE, 0o644)
		if err != nil {
			return err
		}
		if _, err := f.WriteAt(d.data[:n], d.off); err != nil {
			f.Close()
			return err
		}
		f.Close()
		cut -= n
	}
	return nil
}

// ---------------------------------------------------------------------------------------------
// real kills: a child process (this test binary re-executed) runs a stream of stores on a copy of
// the live store and is killed with SIGKILL - either exactly after an acknowledgement (it stops
// itself with SIGSTOP there, so the kill point is deterministic) or at whatever instant the
// parent has read a given number of acknowledgements (the kill then lands inside later stores).

type childOp struct {
	ID      int64 `json:"id"`
	Variant int64 `json:"variant"`
	Stop    bool  `json:"stop"`
}

func TestVerifCrashChild(t *testing.T) {
	dir := os.Getenv("VERIF_CHILD_DIR")
	if dir == "" {
		t.Skip("child of crashsim")
	}
	var plan []childOp
	if err := json.Unmarshal([]byte(os.Getenv("VERIF_CHILD_PLAN")), &plan); err != nil {
		fmt.Println("ERR plan", err)
		os.Exit(3)
	}
	d, err := Open(dir)
	if err != nil {
		fmt.Println("ERR open", err)
		os.Exit(3)
	}
	out := bufio.NewWriter(os.Stdout)
	for k, op := range plan {
		v, _ := crashVAA(op.ID, op.Variant)
		if err := d.StoreSignedVAA(v); err != nil {
			fmt.Fprintln(out, "ERR store", err)
			out.Flush()
			os.Exit(3)
		}
		fmt.Fprintf(out, "ACK %d\n", k)
		out.Flush()
		if op.Stop {
			// The group stop is initiated by whichever thread the kernel picks for the signal, so this
			// thread may run on for some microseconds: park for good, the parent kills us while stopped.
			syscall.Kill(os.Getpid(), syscall.SIGSTOP)
			select {}
		}
	}
	fmt.Fprintln(out, "END")
	out.Flush()
	if os.Getenv("VERIF_CHILD_EXIT") == "1" {
		os.Exit(0) // no Close: the process just ends, like a kill after the last acknowledgement
	}
	select {} // wait for the kill
}

var straceState int // 0 unknown, 1 usable, 2 not

func straceOK() bool {
	if straceState == 0 {
		straceState = 2
		if out, err := exec.Command("strace", "-f", "-qq", "-o", "/dev/null", "-e", "trace=write", "true").CombinedOutput(); err == nil && len(out) == 0 {
			straceState = 1
		}
	}
	return straceState == 1
}

func (w *crashWorld) realKill(st simkit.Step) {
	// the child works on a copy of the live store
	if err := w.d.Close(); err != nil {
		w.violate("close-failed", "%v", err)
		return
	}
	dir := w.newDir("child")
	if err := snapshot(w.live, dir); err != nil {
		w.res.HarnessErr = err.Error()
		return
	}
	r := simkit.NewRng(uint64(st.A), "realkill")
	n := 3 + r.Intn(6)
	var plan []childOp
	for i := 0; i < n; i++ {
		plan = append(plan, childOp{ID: int64(r.Intn(crashUniverse)), Variant: int64(r.Intn(24))})
	}
	killAfter := int(st.B) % n
	stopMode := st.C%2 == 0
	sysMode := st.Op == "syskill"
	if sysMode {
		// the child runs under strace, which delivers SIGKILL when a thread of the child enters its
		// N-th file-system call (open, write, truncate, sync, rename, unlink ...): a kill point at
		// system-call granularity anywhere between the first call of Open and the last store
		stopMode, killAfter = false, 0
	}
	if stopMode {
		plan[killAfter].Stop = true
	}
	pj, _ := json.Marshal(plan)
	cmd := exec.Command(os.Args[0], "-test.run", "^TestVerifCrashChild$", "-test.count", "1")
	if sysMode {
		// strace counts invocations per system call and per thread: one kind of call is chosen and
		// the kill lands when a thread enters its N-th call of that kind (ranges fitted to what a
		// start-up plus a handful of stores issue; a run in which the count is never reached ends
		// normally and is checked like a kill after the last acknowledgement)
		kinds := []struct {
			call string
			max  int64
		}{{"write", 14}, {"ftruncate", 9}, {"openat", 36}, {"fsync,fdatasync", 3}, {"pwrite64", 6}, {"unlink,unlinkat", 3}, {"rename,renameat", 3}, {"write", 3}}
		k := kinds[int(st.B)%len(kinds)]
		n := 1 + (st.B/int64(len(kinds)))%k.max
		if k.call == "openat" {
			n += 8 // the first ones belong to process start-up
		}
		cmd = exec.Command("strace", "-f", "-qq", "-o", "/dev/null", "-e", "trace="+k.call,
			"-e", fmt.Sprintf("inject=%s:signal=SIGKILL:when=%d", k.call, n),
			os.Args[0], "-test.run", "^TestVerifCrashChild$", "-test.count", "1")
	}
	cmd.Env = append(os.Environ(), "VERIF_CHILD_DIR="+dir, "VERIF_CHILD_PLAN="+string(pj), "VERIF_OUT=")
	if sysMode {
		// strace counts calls per thread: with one P nearly all of the store's calls are made by one
		// thread (a few dozen from process start to the last store), so N stays small
		cmd.Env = append(cmd.Env, "VERIF_CHILD_EXIT=1", "GOMAXPROCS=1")
	}
	stdout, _ := cmd.StdoutPipe()
	if err := cmd.Start(); err != nil {
		w.res.HarnessErr = "child: " + err.Error()
		return
	}
	sc := bufio.NewScanner(stdout)
	acked := -1
	childErr := false
	for sc.Scan() {
		line := sc.Text()
		if len(line) > 4 && line[:4] == "ACK " {
			acked, _ = strconv.Atoi(line[4:])
			if acked >= killAfter && !sysMode {
				break
			}
		} else if len(line) >= 8 && line[:8] == "ERR open" {
			childErr = true
			w.violate("store-does-not-reopen-after-kill", "a new process cannot open the store that was closed cleanly (%d ids acknowledged so far): %s", len(w.acked), line)
			break
		} else if len(line) >= 3 && line[:3] == "ERR" {
			childErr = true
			w.violate("store-failed", "child: %s", line)
			break
		}
	}
	if stopMode {
		// wait until the child has really stopped itself, then kill it
		var ws syscall.WaitStatus
		for i := 0; i < 2000; i++ {
			pid, _ := syscall.Wait4(cmd.Process.Pid, &ws, syscall.WUNTRACED|syscall.WNOHANG, nil)
			if pid == cmd.Process.Pid && ws.Stopped() {
				break
			}
			time.Sleep(time.Millisecond)
		}
		w.stats.Fault("sigkill-after-acknowledgement")
	} else if sysMode {
		w.stats.Fault("sigkill-at-a-system-call")
	} else {
		w.stats.Fault("sigkill-during-stream")
	}
	cmd.Process.Signal(syscall.SIGKILL)
	late := 0
	for sc.Scan() {
		late++ // acknowledgements the parent had not read when it killed the child
	}
	cmd.Wait()
	if stopMode && late > 0 {
		w.res.HarnessErr = fmt.Sprintf("child did not stop after acknowledgement %d: %d more lines", killAfter, late)
		return
	}
	if childErr {
		// the violation is recorded; the run ends here (the store under test is unusable)
		w.d = nil
		w.aborted = true
		return
	}
	w.kills++
	if acked < killAfter && !sysMode {
		w.res.HarnessErr = "child ended before the kill point"
		return
	}
	// model: operations 0..acked are acknowledged. In stop mode nothing else can have happened; in
	// stream mode later operations may have been applied fully, partly or not at all.
	model := copyModel(w.acked)
	allowed := map[int64][][]byte{}
	for k, op := range plan {
		_, exp := crashVAA(op.ID, op.Variant)
		id := op.ID % crashUniverse
		if k <= acked {
			model[id] = exp
			allowed[id] = nil
		} else if !stopMode {
			allowed[id] = append(allowed[id], exp)
		}
	}
	// (in stream mode the kill is a real signal racing with a real process: how many further stores
	// the child got acknowledged before it died is not the simulator's choice and not part of the
	// canonical log; the oracle works with the count observed)
	ackedLog := "-"
	if stopMode {
		ackedLog = strconv.Itoa(acked)
	}
	w.log.Add("realkill plan=%s acked=%s killAfter=%d stop=%v", string(pj), ackedLog, killAfter, stopMode)
	d, err := Open(dir)
	w.states++
	if err != nil {
		w.violate("store-does-not-reopen-after-kill", "after SIGKILL (acknowledged %d of %d stores): db.Open failed: %v", acked+1, n, err)
		return
	}
	for i := int64(0); i < crashUniverse; i++ {
		b, err := d.GetSignedVAABytes(crashID(i))
		if err != nil && err != ErrVAANotFound {
			w.violate("lookup-error-after-kill", "after SIGKILL: lookup %d: %v", i, err)
			continue
		}
		ok := bytes.Equal(b, model[i])
		for _, alt := range allowed[i] {
			ok = ok || bytes.Equal(b, alt)
		}
		if !ok {
			switch {
			case b == nil:
				w.violate("acknowledged-write-lost", "after SIGKILL right after the acknowledgement of store #%d: id %d is not found", acked, i)
			case model[i] == nil:
				w.violate("phantom-entry-after-kill", "after SIGKILL: id %d was never acknowledged but returns %d bytes", i, len(b))
			default:
				w.violate("acknowledged-write-altered", "after SIGKILL: id %d returns bytes that are neither the acknowledged VAA nor a later in-flight one", i)
			}
		}
		if b != nil {
			model[i] = b
		} else {
			delete(model, i)
		}
	}
	if err := d.Close(); err != nil {
		w.violate("close-after-recovery-failed", "%v", err)
		return
	}
	if !stopMode {
		// where a kill during the stream lands is not under the simulator's control: the recovered
		// store is verified and then set aside, the workload goes on from the pre-kill store so that
		// the rest of the run (and its canonical log) stays a function of the seed
		os.RemoveAll(dir)
		d0, err := Open(w.live)
		if err != nil {
			w.violate("store-does-not-reopen-after-kill", "reopen of the live store: %v", err)
			return
		}
		w.d = d0
		// the close/reopen above rewrote the directory (memtable flushed to a table, new WAL file):
		// the snapshots taken before it are no longer predecessors of the live store
		if w.prev != "" {
			os.RemoveAll(w.prev)
		}
		if w.cur != "" {
			os.RemoveAll(w.cur)
		}
		w.prev, w.cur = "", ""
		w.log.Add("realkill (stream mode): %d stores", n)
		return
	}
	// continue on the recovered store (after a clean close/reopen, see the kill step)
	d, err = Open(dir)
	if err != nil {
		w.violate("store-does-not-reopen-after-kill", "reopen of the recovered store: %v", err)
		return
	}
	os.RemoveAll(w.live)
	if w.prev != "" {
		os.RemoveAll(w.prev)
	}
	if w.cur != "" {
		os.RemoveAll(w.cur)
	}
	w.prev, w.cur = "", ""
	w.live, w.d, w.acked = dir, d, model
	w.log.Add("realkill: %d stores, stop-mode=%v plan=%s acked=%d killAfter=%d", n, stopMode, string(pj), acked, killAfter)
}

func (w *crashWorld) dropSnapshots() {
	if w.prev != "" {
		os.RemoveAll(w.prev)
	}
	if w.cur != "" {
		os.RemoveAll(w.cur)
	}
	w.prev, w.cur = "", ""
}

// verifyLive compares the open store with the model of acknowledged writes.
func (w *crashWorld) verifyLive(what string) {
	for i := int64(0); i < crashUniverse; i++ {
		b, err := w.d.GetSignedVAABytes(crashID(i))
		switch {
		case w.acked[i] == nil && err != ErrVAANotFound:
			w.violate("phantom-entry", "%s: id %d never acknowledged, lookup err=%v (%d bytes)", what, i, err, len(b))
		case w.acked[i] != nil && err != nil:
			w.violate("acknowledged-write-lost", "%s: id %d was acknowledged but the lookup says %v", what, i, err)
		case w.acked[i] != nil && !bytes.Equal(b, w.acked[i]):
			w.violate("acknowledged-write-altered", "%s: id %d returns other bytes than the acknowledged VAA", what, i)
		}
	}
}

type crashHarness struct{}

func (crashHarness) Name() string { return "crashsim" }

func (crashHarness) Gen(seed uint64, prop, tier string) *simkit.Program {
	r := simkit.NewRng(seed, "crashsim")
	p := &simkit.Program{Cfg: map[string]int64{}}
	add := func(op string, a, b, c, d int64) {
		p.Steps = append(p.Steps, simkit.Step{Op: op, A: a, B: b, C: c, D: d})
	}
	cycles := 3 + r.Intn(4)
	for c := 0; c < cycles; c++ {
		n := 1 + r.Intn(4)
		for i := 0; i < n; i++ {
			add("store", int64(r.Intn(crashUniverse)), int64(r.Intn(24)), 0, 0)
			if r.P(0.3) {
				add("get", int64(r.Intn(crashUniverse)), 0, 0, 0)
			}
		}
		if r.P(0.12) {
			add("closedstore", int64(r.Intn(crashUniverse)), int64(r.Intn(24)), 0, 0)
		}
		if r.P(0.12) {
			add("storm", int64(r.Intn(40)), int64(r.Intn(crashUniverse)), int64(r.Intn(24)), 0)
		}
		if r.P(0.3) {
			add("syskill", int64(r.Intn(1<<30)), int64(r.Intn(8*36)), 1, 0)
		} else if r.P(0.35) {
			add("realkill", int64(r.Intn(1<<30)), int64(r.Intn(8)), int64(r.Intn(4)), 0)
		} else {
			add("kill", int64(r.Intn(1<<30)), int64(3+r.Intn(5)), int64(r.Intn(8)), int64(r.Intn(3)))
		}
	}
	add("get", int64(r.Intn(crashUniverse)), 0, 0, 0)
	return p
}

func (crashHarness) Exec(p *simkit.Program) *simkit.Result {
	res := &simkit.Result{Seed: p.Seed, Prop: p.Prop, Steps: len(p.Steps)}
	scratch := os.Getenv("VERIF_SCRATCH")
	if scratch == "" {
		scratch = os.TempDir()
	}
	w := &crashWorld{res: res, log: &simkit.Log{}, stats: simkit.NewStats(), acked: map[int64][]byte{},
		base: filepath.Join(scratch, fmt.Sprintf("crashsim-%d-%d", os.Getpid(), p.Seed))}
	os.RemoveAll(w.base)
	os.MkdirAll(w.base, 0o755)
	defer os.RemoveAll(w.base)
	w.live = w.newDir("live")
	os.MkdirAll(w.live, 0o755) // the data directory exists before the node opens its store
	d, err := Open(w.live)
	if err != nil {
		res.HarnessErr = err.Error()
		return res
	}
	w.d = d
	func() {
		defer func() {
			if r := recover(); r != nil {
				w.violate("store-panic", "panic: %v", r)
			}
		}()
		w.run(p)
	}()
	if w.d != nil {
		w.d.Close()
	}
	w.stats.ProbeN("crash-states-reopened", int64(w.states))
	w.stats.ProbeN("kill-cycles", int64(w.kills))
	res.Faults, res.Probes = w.stats.Faults, w.stats.Probes
	res.Log, res.LogHash = w.log.Lines(), w.log.Hash()
	res.NonTrivial = w.kills > 0
	return res
}

func TestVerifSim(t *testing.T) {
	if os.Getenv("VERIF_OUT") == "" {
		t.Skip("verification harness: run through /verif/bin/check")
	}
	if msg := simkit.Main(crashHarness{}); msg != "" {
		fmt.Println("HARNESS-TROUBLE: " + msg)
		t.Fatal(msg)
	}
}
