//go:build verif

// dbsim (C12): model-based operation sequences against the real VAA store and the RPC layers on
// top of it. Real code: db.Open/StoreSignedVAA/GetSignedVAABytes/FindEmitterSequenceGap/
// GetGovernanceVAABatch/Close on a real badger directory, publicrpc.PublicrpcServer
// (GetSignedVAA, GetNonGovernanceVAABatch, GetGovernanceVAABatch) and the admin service's
// FindMissingMessages, called as methods (grpc transport is the stub boundary).
// Faults: clean close-and-reopen of the store at any point. Oracle: an in-memory map.
package guardiand

import (
	"bytes"
	"context"
	"encoding/base64"
	"encoding/hex"
	"encoding/json"
	"fmt"
	"io"
	"net/http"
	"os"
	"path/filepath"
	"sort"
	"strings"
	"sync"
	"testing"
	"testing/synctest"
	"time"

	"github.com/alephium/wormhole-fork/node/pkg/common"
	"github.com/alephium/wormhole-fork/node/pkg/db"
	gossipv1 "github.com/alephium/wormhole-fork/node/pkg/proto/gossip/v1"
	nodev1 "github.com/alephium/wormhole-fork/node/pkg/proto/node/v1"
	publicrpcv1 "github.com/alephium/wormhole-fork/node/pkg/proto/publicrpc/v1"
	"github.com/alephium/wormhole-fork/node/pkg/publicrpc"
	"github.com/alephium/wormhole-fork/node/pkg/vaa"
	"github.com/ethereum/go-ethereum/crypto"
	"go.uber.org/zap"
	"google.golang.org/grpc/codes"
	"google.golang.org/grpc/status"

	"verif.local/simkit"
	"verif.local/simkit/ref"
)

var (
	dbChains  = []uint16{1, 2, 10, 17, 10001, 255}
	dbTargets = []uint16{0, 1, 2, 4, 10, 17, 25, 42, 255, 2550, 10001}
	dbGovAddr = vaa.Address{0, 0, 0, 0, 0, 0, 0, 0, 0, 0, 0, 0, 0, 0, 0, 0, 0, 0, 0, 0, 0, 0, 0, 0, 0, 0, 0, 0, 0, 0, 0, 4}
	dbAddrA   = vaa.Address{0xaa, 1, 2, 3, 4, 5, 6, 7, 8, 9, 10, 11, 12, 13, 14, 15, 16, 17, 18, 19, 20, 21, 22, 23, 24, 25, 26, 27, 28, 29, 30, 0x01}
	dbAddrB   = vaa.Address{0xaa, 1, 2, 3, 4, 5, 6, 7, 8, 9, 10, 11, 12, 13, 14, 15, 16, 17, 18, 19, 20, 21, 22, 23, 24, 25, 26, 27, 28, 29, 30, 0x02}
	dbAddrBig = vaa.Address{0xcc}
	dbAddrs   = []vaa.Address{dbAddrA, dbAddrB, dbGovAddr, dbAddrBig}
	dbGovCh   = uint16(255)
)

// id packs (chain idx, addr idx, target idx, seq idx) into step argument A.
type dbID struct {
	ec   uint16
	addr vaa.Address
	tc   uint16
	seq  uint64
	ai   int
}

func unpackID(a int64) dbID {
	if a < 0 {
		a = -a
	}
	ci := int(a % 6)
	ai := int(a/6) % 4
	ti := int(a/24) % 11
	si := int(a/264) % 16
	id := dbID{ec: dbChains[ci], addr: dbAddrs[ai], tc: dbTargets[ti], seq: uint64(si), ai: ai}
	if ai == 2 {
		id.ec = dbGovCh // the governance emitter lives on the governance chain
	}
	if ai == 3 {
		// the stream with astronomically large sequences is only ever read by identifier
		id.seq = []uint64{1 << 63, ^uint64(0), 1<<63 + 1, 1 << 32}[si%4]
	}
	return id
}

func packID(ci, ai, ti, si int) int64 { return int64(ci + 6*ai + 24*ti + 264*si) }

func (i dbID) key() string { return fmt.Sprintf("%d/%x/%d/%d", i.ec, i.addr[:], i.tc, i.seq) }
func (i dbID) stream() string {
	return fmt.Sprintf("%d/%x/%d", i.ec, i.addr[:], i.tc)
}
func (i dbID) vaaID() vaa.VAAID {
	return vaa.VAAID{EmitterChain: vaa.ChainID(i.ec), EmitterAddress: i.addr, TargetChain: vaa.ChainID(i.tc), Sequence: i.seq}
}

type dbWorld struct {
	res                                   *simkit.Result
	log                                   *simkit.Log
	stats                                 *simkit.Stats
	dir                                   string
	d                                     *db.Database
	rpc                                   *publicrpc.PublicrpcServer
	adm                                   *nodePrivilegedService
	model                                 map[string][]byte
	ids                                   map[string]dbID
	step                                  int
	seed                                  uint64
	bfCalls                               int
	bfAnswers                             map[string]int
	gets, gaps, batches, hits, overwrites int
}

// RoundTrip plays the public RPC of the backfill nodes the admin command asks for missing VAAs:
// per requested identifier it answers 404 (does not have it), 200 (has it) or 503 (overloaded),
// decided by a hash of seed and path (order-independent).
func (w *dbWorld) RoundTrip(req *http.Request) (*http.Response, error) {
	mk := func(code int, body []byte) *http.Response {
		return &http.Response{StatusCode: code, Status: fmt.Sprint(code), Proto: "HTTP/1.1", ProtoMajor: 1, ProtoMinor: 1, Header: http.Header{},
			Body: io.NopCloser(bytes.NewReader(body)), ContentLength: int64(len(body)), Request: req}
	}
	if err := req.Context().Err(); err != nil {
		return nil, err
	}
	w.bfCalls++
	switch h := simkit.Hash64(w.seed, "backfill", req.URL.Path) % 20; {
	case h < 11:
		w.bfAnswers[req.URL.Path] = 404
		return mk(404, []byte(`{"code":5,"message":"requested VAA not found in store"}`)), nil
	case h < 16:
		w.bfAnswers[req.URL.Path] = 200
		b, _ := json.Marshal(map[string]string{"vaaBytes": base64.StdEncoding.EncodeToString([]byte("backfilled " + req.URL.Path))})
		return mk(200, b), nil
	default:
		w.bfAnswers[req.URL.Path] = 503
		w.stats.Fault("backfill-node-503")
		return mk(503, []byte("service unavailable")), nil
	}
}

func (w *dbWorld) violate(key, format string, a ...interface{}) {
	for _, v := range w.res.Violations {
		if v.Key == key {
			return
		}
	}
	w.res.Violations = append(w.res.Violations, simkit.Violation{Prop: "C12", Key: key, Step: w.step, Detail: fmt.Sprintf(format, a...)})
}

func (w *dbWorld) open() error {
	d, err := db.Open(w.dir)
	if err != nil {
		return err
	}
	w.d = d
	w.rpc = publicrpc.NewPublicrpcServer(zap.NewNop(), d, common.NewGuardianSetState(nil), vaa.ChainID(dbGovCh), dbGovAddr)
	w.adm = &nodePrivilegedService{db: d, logger: zap.NewNop(), governanceChainId: vaa.ChainID(dbGovCh), governanceEmitterAddress: dbGovAddr,
		signedInC: make(chan *gossipv1.SignedVAAWithQuorum, 4096)}
	return nil
}

// buildVAA makes the VAA of a store step: body variant B, signature variant C.
func buildVAA(id dbID, bodyVar, sigVar int64) (*vaa.VAA, []byte) {
	plen := []int{6, 1, 40, 999, 1000, 1001, 1700, 133}[int(bodyVar)%8]
	if bodyVar >= 64 {
		plen = 0 // empty payload: the processor stores such VAAs (own observation of an empty message)
	}
	payload := make([]byte, plen)
	for i := range payload {
		payload[i] = byte(int(bodyVar)*31 + i*7 + int(id.seq))
	}
	rb := ref.Body{TimestampSec: uint32(1_700_000_000 + bodyVar), Nonce: uint32(bodyVar), EmitterChain: id.ec, TargetChain: id.tc, Emitter: id.addr,
		Sequence: id.seq, Consistency: uint8(bodyVar), Payload: payload}
	nsig := 1 + int(sigVar)%3
	rv := &ref.VAA{Version: 1, SetIndex: uint32(sigVar % 5), Body: rb}
	v := &vaa.VAA{Version: 1, GuardianSetIndex: uint32(sigVar % 5), Timestamp: time.Unix(int64(rb.TimestampSec), 0), Nonce: rb.Nonce, Sequence: id.seq,
		ConsistencyLevel: rb.Consistency, EmitterChain: vaa.ChainID(id.ec), TargetChain: vaa.ChainID(id.tc), EmitterAddress: id.addr, Payload: payload}
	for i := 0; i < nsig; i++ {
		var s ref.Sig
		s.Index = uint8(i + int(sigVar)%4)
		h := crypto.Keccak256([]byte{byte(sigVar), byte(i)}, []byte(id.key()))
		copy(s.Sig[:], append(append(h, h...), 1))
		rv.Sigs = append(rv.Sigs, s)
		v.Signatures = append(v.Signatures, &vaa.Signature{Index: s.Index, Signature: s.Sig})
	}
	return v, ref.Encode(rv)
}

func (w *dbWorld) streamSeqs(stream string) []uint64 {
	var out []uint64
	for k, id := range w.ids {
		if w.model[k] != nil && id.stream() == stream {
			out = append(out, id.seq)
		}
	}
	sort.Slice(out, func(a, b int) bool { return out[a] < out[b] })
	return out
}

func (w *dbWorld) checkGap(id dbID, missing []uint64, first, last uint64, via string) {
	P := w.streamSeqs(id.stream())
	if len(P) == 0 {
		// nothing is stored for this stream: "nothing known" may be rendered as first=last=0 with
		// sequence 0 (not) listed, but no other sequence can appear
		if last != 0 || first != 0 || len(missing) > 1 || (len(missing) == 1 && missing[0] != 0) {
			w.violate("gap-query-mixes-streams", "%s: stream %s is empty but the query reports last=%d missing=%v", via, id.stream(), last, missing)
		}
		return
	}
	minP, maxP := P[0], P[len(P)-1]
	present := map[uint64]bool{}
	for _, s := range P {
		present[s] = true
	}
	if last != maxP {
		w.violate("gap-query-mixes-streams", "%s: stream %s has sequences %v but last=%d", via, id.stream(), P, last)
		return
	}
	if first != 0 && first != minP {
		w.violate("gap-query-wrong-first", "%s: stream %s has sequences %v but first=%d", via, id.stream(), P, first)
	}
	got := map[uint64]bool{}
	for _, m := range missing {
		if got[m] {
			w.violate("gap-query-duplicate", "%s: sequence %d reported missing twice", via, m)
		}
		got[m] = true
		if present[m] || m > maxP {
			w.violate("gap-query-reports-present-as-missing", "%s: stream %s holds %v, %d reported missing", via, id.stream(), P, m)
		}
	}
	for s := minP; s <= maxP; s++ {
		if !present[s] && !got[s] {
			w.violate("gap-query-misses-a-gap", "%s: stream %s holds %v, gap %d not reported (missing=%v)", via, id.stream(), P, s, missing)
		}
	}
}

func (w *dbWorld) run(p *simkit.Program) {
	for i, st := range p.Steps {
		w.step = i
		id := unpackID(st.A)
		// D=1: the caller has gone away (its context is cancelled). The answer may then be an error;
		// an answer that claims success must still be the right one.
		ctx, gone := context.Background(), false
		if st.D == 1 {
			c, cancel := context.WithCancel(context.Background())
			cancel()
			ctx, gone = c, true
			w.stats.Fault("caller-context-cancelled")
		}
		switch st.Op {
		case "store":
			v, exp := buildVAA(id, st.B, st.C)
			if err := w.d.StoreSignedVAA(v); err != nil {
				w.violate("store-failed", "StoreSignedVAA(%s): %v", id.key(), err)
				break
			}
			if w.model[id.key()] != nil {
				w.overwrites++
				if bytes.Equal(w.model[id.key()][6+66*int(w.model[id.key()][5]):], exp[6+66*int(exp[5]):]) {
					w.stats.Fault("overwrite-other-signatures")
				} else {
					w.stats.Fault("overwrite-other-body")
				}
			}
			w.model[id.key()] = exp
			w.ids[id.key()] = id
			w.log.Add("store %s %d bytes", id.key(), len(exp))
		case "get":
			w.gets++
			b, err := w.d.GetSignedVAABytes(id.vaaID())
			exp := w.model[id.key()]
			if exp == nil {
				if err != db.ErrVAANotFound {
					w.violate("absent-id-not-notfound", "lookup of absent %s returned err=%v, %d bytes", id.key(), err, len(b))
				}
			} else {
				w.hits++
				if err != nil || !bytes.Equal(b, exp) {
					w.violate("lookup-not-byte-exact", "lookup of %s: err=%v, got %d bytes, want %d bytes", id.key(), err, len(b), len(exp))
				}
			}
			resp, rerr := w.rpc.GetSignedVAA(ctx, &publicrpcv1.GetSignedVAARequest{MessageId: &publicrpcv1.MessageID{
				EmitterChain: publicrpcv1.ChainID(id.ec), EmitterAddress: hex.EncodeToString(id.addr[:]), TargetChain: publicrpcv1.ChainID(id.tc), Sequence: id.seq}})
			if gone && rerr != nil && status.Code(rerr) != codes.NotFound {
				w.log.Add("get %s -> error (caller gone)", id.key())
				break
			}
			if exp == nil {
				if status.Code(rerr) != codes.NotFound {
					w.violate("rpc-absent-id-not-notfound", "public RPC for absent %s: err=%v", id.key(), rerr)
				}
			} else if rerr != nil || !bytes.Equal(resp.VaaBytes, exp) {
				w.violate("rpc-lookup-not-byte-exact", "public RPC for %s: err=%v", id.key(), rerr)
			}
			w.log.Add("get %s found=%v", id.key(), exp != nil)
		case "gap":
			if id.ai == 3 {
				break
			}
			w.gaps++
			missing, first, last, err := w.d.FindEmitterSequenceGap(id.vaaID())
			if err != nil {
				w.violate("gap-query-error", "FindEmitterSequenceGap(%s): %v", id.stream(), err)
				break
			}
			w.checkGap(id, missing, first, last, "db")
			resp, err := w.adm.FindMissingMessages(ctx, &nodev1.FindMissingMessagesRequest{EmitterChain: uint32(id.ec), EmitterAddress: hex.EncodeToString(id.addr[:]), TargetChain: uint32(id.tc)})
			if err != nil {
				if !gone {
					w.violate("gap-query-error", "FindMissingMessages(%s): %v", id.stream(), err)
				}
				break
			}
			var m2 []uint64
			for _, s := range resp.MissingMessages {
				pre := fmt.Sprintf("%d/%x/%d/", id.ec, id.addr[:], id.tc)
				if !strings.HasPrefix(s, pre) {
					w.violate("missing-message-id-of-other-stream", "FindMissingMessages(%s) names %s", id.stream(), s)
					continue
				}
				var q uint64
				fmt.Sscanf(s[len(pre):], "%d", &q)
				m2 = append(m2, q)
			}
			w.checkGap(id, m2, resp.FirstSequence, resp.LastSequence, "admin-rpc")
			w.log.Add("gap %s -> %v first=%d last=%d", id.stream(), missing, first, last)
		case "gapbf":
			if id.ai == 3 {
				break
			}
			// the same gap query, with backfill from a (simulated) public RPC node switched on
			w.bfAnswers = map[string]int{}
			// the consumer of backfilled VAAs (the processor's signed-VAA input): roomy queue, or
			// (C=1) an unbuffered hand-off to a consumer that takes three seconds per VAA
			handed := map[string]bool{}
			var hmu sync.Mutex
			stopC, doneC := make(chan struct{}), make(chan struct{})
			inC := make(chan *gossipv1.SignedVAAWithQuorum, 4096)
			if st.C == 1 {
				inC = make(chan *gossipv1.SignedVAAWithQuorum)
				w.stats.Fault("backfill-consumer-slow")
			}
			w.adm.signedInC = inC
			go func() {
				defer close(doneC)
				for {
					select {
					case m := <-inC:
						hmu.Lock()
						handed[string(m.Vaa)] = true
						hmu.Unlock()
						if st.C == 1 {
							select {
							case <-time.After(3 * time.Second):
							case <-stopC:
							}
						}
					case <-stopC:
						return
					}
				}
			}()
			resp, err := w.adm.FindMissingMessages(ctx, &nodev1.FindMissingMessagesRequest{EmitterChain: uint32(id.ec), EmitterAddress: hex.EncodeToString(id.addr[:]),
				TargetChain: uint32(id.tc), RpcBackfill: true, BackfillNodes: []string{"http://backfill.sim"}})
			w.stats.Fault("gap-query-with-backfill")
			synctest.Wait()
			close(stopC)
			<-doneC
			for len(inC) > 0 {
				handed[string((<-inC).Vaa)] = true
			}
			if err != nil {
				if gone {
					w.log.Add("gapbf %s -> error (caller gone)", id.stream())
					break
				}
				// failing the whole request is an honest answer when a backfill node misbehaves
				has503 := false
				for _, c := range w.bfAnswers {
					has503 = has503 || c == 503
				}
				if !has503 {
					w.violate("gap-query-error", "FindMissingMessages with backfill (%s): %v", id.stream(), err)
				}
				w.log.Add("gapbf %s -> error", id.stream())
				break
			}
			P := w.streamSeqs(id.stream())
			if len(P) > 0 {
				present := map[uint64]bool{}
				for _, q := range P {
					present[q] = true
				}
				reported := map[uint64]bool{}
				pre := fmt.Sprintf("%d/%x/%d/", id.ec, id.addr[:], id.tc)
				for _, m := range resp.MissingMessages {
					var q uint64
					fmt.Sscanf(strings.TrimPrefix(m, pre), "%d", &q)
					reported[q] = true
				}
				for q := P[0]; q <= P[len(P)-1]; q++ {
					path := fmt.Sprintf("/v1/signed_vaa/%d/%x/%d/%d", id.ec, id.addr[:], id.tc, q)
					if !present[q] && !reported[q] && w.bfAnswers[path] != 200 {
						w.violate("gap-silently-dropped-from-report", "stream %s holds %v; sequence %d is missing, the backfill node answered %d for it, yet it is not in the missing-messages report %v",
							id.stream(), P, q, w.bfAnswers[path], resp.MissingMessages)
					}
					if !present[q] && !reported[q] && w.bfAnswers[path] == 200 && !handed["backfilled "+path] {
						w.violate("backfilled-vaa-lost", "stream %s: sequence %d is left out of the missing-messages report as backfilled, but the VAA the backfill node served never reached the signed-VAA input",
							id.stream(), q)
					}
				}
			}
			w.log.Add("gapbf %s -> %d missing", id.stream(), len(resp.MissingMessages))
		case "batch":
			w.batches++
			var seqs []uint64
			for k := 0; k < 16; k++ {
				if st.B&(1<<uint(k)) != 0 {
					seqs = append(seqs, uint64(k))
				}
			}
			if st.C%3 == 1 {
				// the request lists its sequences in descending order, or rotated: order means nothing
				for a, b := 0, len(seqs)-1; a < b; a, b = a+1, b-1 {
					seqs[a], seqs[b] = seqs[b], seqs[a]
				}
			} else if st.C%3 == 2 && len(seqs) > 2 {
				seqs = append(seqs[len(seqs)/2:], seqs[:len(seqs)/2]...)
			}
			if id.ai == 2 {
				resp, err := w.rpc.GetGovernanceVAABatch(ctx, &publicrpcv1.GetGovernanceVAABatchRequest{Sequences: seqs})
				if err != nil {
					if !gone {
						w.violate("governance-batch-error", "GetGovernanceVAABatch: %v", err)
					}
					break
				}
				var got, want []string
				for _, e := range resp.Entries {
					got = append(got, fmt.Sprintf("%d/%d/%x", e.TargetChain, e.Sequence, crypto.Keccak256(e.VaaBytes)[:6]))
				}
				for k, mid := range w.ids {
					if w.model[k] == nil || mid.ai != 2 {
						continue
					}
					for _, s := range seqs {
						if s == mid.seq {
							want = append(want, fmt.Sprintf("%d/%d/%x", mid.tc, mid.seq, crypto.Keccak256(w.model[k])[:6]))
						}
					}
				}
				sort.Strings(got)
				sort.Strings(want)
				if strings.Join(got, ",") != strings.Join(want, ",") {
					w.violate("governance-batch-wrong", "governance batch for %v returned %v, want %v", seqs, got, want)
				}
				w.log.Add("govbatch %v -> %d", seqs, len(got))
			} else {
				resp, err := w.rpc.GetNonGovernanceVAABatch(ctx, &publicrpcv1.GetNonGovernanceVAABatchRequest{EmitterChain: publicrpcv1.ChainID(id.ec),
					EmitterAddress: hex.EncodeToString(id.addr[:]), TargetChain: publicrpcv1.ChainID(id.tc), Sequences: seqs})
				if err != nil {
					if !gone {
						w.violate("batch-error", "GetNonGovernanceVAABatch: %v", err)
					}
					break
				}
				got := map[uint64][]byte{}
				for _, e := range resp.Entries {
					if _, dup := got[e.Sequence]; dup {
						w.violate("batch-duplicate-entry", "batch for stream %s lists sequence %d twice", id.stream(), e.Sequence)
					}
					got[e.Sequence] = e.VaaBytes
				}
				for _, s := range seqs {
					q := id
					q.seq = s
					exp := w.model[q.key()]
					b, listed := got[s]
					switch {
					case exp == nil && listed:
						w.violate("batch-reports-absent-sequence", "batch for stream %s lists sequence %d (%d bytes) which is not stored", id.stream(), s, len(b))
					case exp != nil && !bytes.Equal(b, exp):
						w.violate("batch-wrong", "batch for stream %s seq %d: got %d bytes want %d", id.stream(), s, len(b), len(exp))
					}
					delete(got, s)
				}
				if len(got) != 0 {
					w.violate("batch-extra-entries", "batch for stream %s returned sequences that were not asked for", id.stream())
				}
				w.log.Add("batch %s %v -> %d", id.stream(), seqs, len(resp.Entries))
			}
		case "closedops":
			// shutdown order: the store has been closed while the RPC layer and a writer still use it.
			// Nothing may be invented: a lookup answers with an error (never "found" with other bytes,
			// never OK with nothing), and a store that answers "stored" must be there after the reopen.
			if err := w.d.Close(); err != nil {
				w.violate("close-failed", "Close: %v", err)
			}
			w.stats.Fault("operations-on-a-closed-store")
			b, err := w.d.GetSignedVAABytes(id.vaaID())
			if err == nil && !bytes.Equal(b, w.model[id.key()]) {
				w.violate("closed-store-lookup-invents-an-answer", "lookup of %s on a closed store answered success with %d bytes (stored: %d bytes)", id.key(), len(b), len(w.model[id.key()]))
			}
			if w.model[id.key()] == nil && err == nil {
				w.violate("closed-store-lookup-invents-an-answer", "lookup of absent %s on a closed store answered success", id.key())
			}
			resp, rerr := w.rpc.GetSignedVAA(ctx, &publicrpcv1.GetSignedVAARequest{MessageId: &publicrpcv1.MessageID{
				EmitterChain: publicrpcv1.ChainID(id.ec), EmitterAddress: hex.EncodeToString(id.addr[:]), TargetChain: publicrpcv1.ChainID(id.tc), Sequence: id.seq}})
			if rerr == nil && !bytes.Equal(resp.VaaBytes, w.model[id.key()]) {
				w.violate("closed-store-lookup-invents-an-answer", "public RPC for %s on a closed store answered OK with %d bytes", id.key(), len(resp.VaaBytes))
			}
			v, exp := buildVAA(id, st.B, st.C)
			if serr := w.d.StoreSignedVAA(v); serr == nil {
				w.model[id.key()] = exp // acknowledged
				w.ids[id.key()] = id
			}
			if err := w.open(); err != nil {
				w.violate("reopen-failed", "Open after clean close: %v", err)
				return
			}
			if b, err := w.d.GetSignedVAABytes(id.vaaID()); w.model[id.key()] != nil && (err != nil || !bytes.Equal(b, w.model[id.key()])) {
				w.violate("acknowledged-store-lost", "a store of %s on the closed store was acknowledged, after the reopen the lookup says err=%v (%d bytes)", id.key(), err, len(b))
			}
			w.log.Add("closedops %s", id.key())
		case "reopen":
			if err := w.d.Close(); err != nil {
				w.violate("close-failed", "Close: %v", err)
			}
			if err := w.open(); err != nil {
				w.violate("reopen-failed", "Open after clean close: %v", err)
				return
			}
			w.stats.Fault("clean-close-reopen")
			w.log.Add("reopen")
		}
		w.log.Cut(fmt.Sprintf("%d %s", i, st))
	}
	// final sweep: every identifier ever named
	for k, id := range w.ids {
		b, err := w.d.GetSignedVAABytes(id.vaaID())
		if w.model[k] != nil && (err != nil || !bytes.Equal(b, w.model[k])) {
			w.violate("lookup-not-byte-exact", "final sweep: %s err=%v", k, err)
		}
	}
}

type dbHarness struct{ t *testing.T }

func (dbHarness) Name() string { return "dbsim" }

func (dbHarness) Gen(seed uint64, prop, tier string) *simkit.Program {
	r := simkit.NewRng(seed, "dbsim")
	p := &simkit.Program{Cfg: map[string]int64{}}
	add := func(op string, a, b, c int64) { p.Steps = append(p.Steps, simkit.Step{Op: op, A: a, B: b, C: c}) }
	// a few focus streams plus textual neighbours of them
	type stream struct{ ci, ai, ti int }
	var focus []stream
	nf := 1 + r.Intn(3)
	for i := 0; i < nf; i++ {
		s := stream{r.Intn(6), r.Pick(4, 3, 3, 0), r.Intn(11)}
		focus = append(focus, s)
		// neighbours: same emitter, target chain whose decimal rendering extends / is extended by this one
		for t := 0; t < 11; t++ {
			a, b := fmt.Sprint(dbTargets[s.ti]), fmt.Sprint(dbTargets[t])
			if t != s.ti && (strings.HasPrefix(a, b) || strings.HasPrefix(b, a)) && r.P(0.7) {
				focus = append(focus, stream{s.ci, s.ai, t})
			}
		}
		for c := 0; c < 6; c++ {
			a, b := fmt.Sprint(dbChains[s.ci]), fmt.Sprint(dbChains[c])
			if c != s.ci && (strings.HasPrefix(a, b) || strings.HasPrefix(b, a)) && r.P(0.5) {
				focus = append(focus, stream{c, s.ai, s.ti})
			}
		}
		if r.P(0.4) {
			focus = append(focus, stream{s.ci, (s.ai + 1) % 2, s.ti})
		}
		if s.ti != 0 && r.P(0.4) {
			// the same emitter also addresses target chain 0 ("all chains"), as the governance emitter does
			focus = append(focus, stream{s.ci, s.ai, 0})
		}
	}
	pickStream := func() stream {
		if r.P(0.85) {
			return focus[r.Intn(len(focus))]
		}
		return stream{r.Intn(6), r.Intn(3), r.Intn(11)}
	}
	n := 15 + r.Intn(60)
	emptyPayloads := r.P(0.15)
	for i := 0; i < n; i++ {
		s := pickStream()
		switch r.Pick(10, 5, 5, 3, 1, 1) {
		case 0:
			bv := int64(r.Intn(8) + 8*r.Intn(4))
			if emptyPayloads && r.P(0.15) {
				bv += 64
			}
			add("store", packID(s.ci, s.ai, s.ti, r.Intn(13)), bv, int64(r.Intn(12)))
		case 1:
			add("get", packID(s.ci, s.ai, s.ti, r.Intn(14)), 0, 0)
			if r.P(0.05) {
				p.Steps[len(p.Steps)-1].D = 1
			}
		case 2:
			if r.P(0.3) {
				add("gapbf", packID(s.ci, s.ai, s.ti, 0), 0, int64(r.Pick(3, 1)))
			} else {
				add("gap", packID(s.ci, s.ai, s.ti, 0), 0, 0)
			}
			if r.P(0.08) {
				p.Steps[len(p.Steps)-1].D = 1
			}
		case 3:
			add("batch", packID(s.ci, s.ai, s.ti, 0), int64(r.Intn(1<<13)), int64(r.Intn(3)))
			if r.P(0.12) {
				p.Steps[len(p.Steps)-1].D = 1
			}
		case 4:
			if r.P(0.3) {
				add("closedops", packID(s.ci, s.ai, s.ti, r.Intn(13)), int64(r.Intn(8)), int64(r.Intn(12)))
			} else {
				add("reopen", 0, 0, 0)
			}
		case 5:
			id := packID(r.Intn(6), 3, r.Intn(11), r.Intn(4))
			add("store", id, int64(r.Intn(8)), int64(r.Intn(12)))
			add("get", id, 0, 0)
		}
	}
	for _, s := range focus {
		add("gap", packID(s.ci, s.ai, s.ti, 0), 0, 0)
	}
	return p
}

func (h dbHarness) Exec(p *simkit.Program) *simkit.Result {
	res := &simkit.Result{Seed: p.Seed, Prop: p.Prop, Steps: len(p.Steps)}
	scratch := os.Getenv("VERIF_SCRATCH")
	if scratch == "" {
		scratch = os.TempDir()
	}
	w := &dbWorld{res: res, log: &simkit.Log{}, stats: simkit.NewStats(), model: map[string][]byte{}, ids: map[string]dbID{},
		dir: filepath.Join(scratch, fmt.Sprintf("dbsim-%d-%d", os.Getpid(), p.Seed))}
	os.RemoveAll(w.dir)
	defer os.RemoveAll(w.dir)
	w.seed, w.bfAnswers = p.Seed, map[string]int{}
	oldT := http.DefaultTransport
	http.DefaultTransport = w
	defer func() { http.DefaultTransport = oldT }()
	// everything runs on the fake clock of a synctest bubble: the backfill path has a one-second
	// budget per sequence and a consumer of backfilled VAAs that may be slower than that
	body := func(t *testing.T) {
		if err := w.open(); err != nil {
			res.HarnessErr = err.Error()
			return
		}
		func() {
			defer func() {
				if r := recover(); r != nil {
					w.violate("store-panic", "panic: %v", r)
				}
			}()
			w.run(p)
		}()
		w.d.Close()
	}
	func() {
		defer func() {
			if r := recover(); r != nil {
				res.HarnessErr = "bubble: " + fmt.Sprint(r)
			}
		}()
		synctest.Test(h.t, body)
	}()
	if res.HarnessErr != "" {
		return res
	}
	w.stats.ProbeN("lookups", int64(w.gets))
	w.stats.ProbeN("lookup-hits", int64(w.hits))
	w.stats.ProbeN("gap-queries", int64(w.gaps))
	w.stats.ProbeN("batch-queries", int64(w.batches))
	w.stats.ProbeN("overwrites", int64(w.overwrites))
	res.Faults, res.Probes = w.stats.Faults, w.stats.Probes
	res.Log, res.LogHash = w.log.Lines(), w.log.Hash()
	res.NonTrivial = w.gaps > 0 && w.hits > 0
	return res
}

func TestVerifSim(t *testing.T) {
	if os.Getenv("VERIF_OUT") == "" {
		t.Skip("verification harness: run through /verif/bin/check")
	}
	if msg := simkit.Main(dbHarness{t}); msg != "" {
		fmt.Println("HARNESS-TROUBLE: " + msg)
		t.Fatal(msg)
	}
}
