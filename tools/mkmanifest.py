#!/usr/bin/env python3
"""Regenerates /verif/MANIFEST.json from the table below (kept as a script so that the manifest
stays valid and consistent while checks are added)."""
import json, os
V = os.path.dirname(os.path.dirname(os.path.abspath(__file__)))
TB = ("Trusted: Go runtime + testing/synctest fake clock, go-ethereum keccak/secp256k1, badger, protobuf, the independent "
      "reference codec/verifier in simkit/ref. Checks are compiled with go1.26.8 (the shipped binary uses an older toolchain). "
      "Seeded sampling of schedules and faults, not proof.")

CHECKS = {
 "C01": ("procsim", "deterministic simulation: seeded scenario programs against the real processor, independent VAA verifier as oracle over every store/broadcast diff",
   "Seeded search over interleavings of observations, loopbacks, forged/duplicated gossip, inbound VAAs, guardian-set rotations, restarts; every VAA the node stores, broadcasts or reports is re-verified by an independent decoder/verifier against the set the statement prescribes. The unit tests call one handler with six hand-made VAAs; this drives all handlers in thousands of orders. About one run in eight is a mesh run: three to six complete processors exchange their real gossip over a simulated lossy, partitioned network with crashes, guardian-set rotations and the re-observation loop; every broadcast and every store change of every node is judged by the same verifier.", "3/C01"),
 "C02": ("procsim", "deterministic simulation with a quorum/observation reference model evaluated after every delivery",
   "Safety (never published unobserved / below quorum / twice / other body / governance emitter) and progress (published in the very step that completes an accepted quorum) checked per step against a model derived from the statement. Pure programs are re-executed under a permutation of their deliveries (confluence). Mesh runs add bounded liveness: 18 simulated minutes after the last fault every running member that observed a message holds its VAA, if a quorum of the set is running.", "3/C02"),
 "C03": ("procsim+p2psim", "deterministic simulation: single-mutation byzantine gossip against the real verifiers, state-unchanged oracle decided by an independent verifier",
   "Every gossiped observation, heartbeat and re-observation request is judged by an independent verifier first; for rejected ones aggregation state, heartbeat table, outputs and store must be bit-identical before/after; includes cross-type replays, prefix confusion, truncation around the 34-byte floor, rotation of the set, the per-guardian cap. A small race-detector pass lets eight valid heartbeats from new peers hit the table in parallel just below the cap.", "3/C03"),
 "C13": ("procsim", "deterministic simulation with adversarial input histories; any recovered panic (or process death) is the violation",
   "Every handler call and the real Run loop are executed under recover over adversarial histories (empty/oversized payloads, nil fields, inputs before the first set, empty sets, restarts, ticks of any length). A handler or Run loop that stops consuming its inputs (parked on a queue or on the shared guardian-set state, whose mutex is a channel lock in the simulated build) is reported as well; a race-detector pass feeds gossip and heartbeats from several goroutines while cleanup ticks fire. In half of the runs the node signs through the Cloud KMS signer's own DER conversion (only the gRPC call is stubbed).", "3/C13"),
 "C14": ("procsim", "deterministic simulation on a fake clock with a time-bounded retry/expiry model checked after every cleanup pass",
   "Cleanup passes at regular, jittered, threshold+-1ns and multi-day intervals on the synctest clock; retry cadence/content and entry lifetimes are compared with bounds taken from the statement. The Run loop is also cancelled and entered again on the same Processor (what a supervisor does), which must not lose pending entries.", "3/C14"),
}
EXTRA = os.path.join(V, "tools", "manifest_extra.json")
if os.path.exists(EXTRA):
    for k, v in json.load(open(EXTRA)).items():
        CHECKS[k] = tuple(v)

NA = {
 "C04": "pure function of the VAA value plus a cross-language layout reading; no schedule, clock, fault or interleaving for a simulator to vary",
 "C05": "pure function of a byte string (codec round trip / decoder totality); input generation is not simulation",
 "C06": "pure function of (VAA, address list)",
 "C07": "arithmetic over 256 integers and two contract sources; exhaustive enumeration is model checking, not simulation",
 "C11": "pure function of the reported event fields (boundary values are still fed through alphsim for C09)",
 "C15": "the statement itself says construction is a pure function of the request; agreement with the Ralph parsers is a layout comparison",
}
ALL = ["C%02d" % i for i in range(1, 21)]
ENGINES = {
 "procsim": (["C01","C02","C03","C13","C14","C17"], "deterministic simulator around the real guardian processor (synctest fake clock, scripted peers, real badger store); mesh mode: several real processors over a simulated network"),
 "p2psim": (["C03"], "scripted byzantine gossip against the real heartbeat / observation-request verifiers and GuardianSetState"),
 "dbsim": (["C12"], "model-based operation sequences with clean restarts against the real db.Database and public RPC server"),
 "crashsim": (["C16"], "kill-point simulator: sparse snapshots of the live badger directory plus synthesised torn in-flight writes, reopened with the real db.Open"),
 "reobssim": (["C17"], "synctest bubble around the real re-observation dispatcher with scripted requests, clock advances and queue fill levels"),
 "supsim": (["C18"], "synctest bubble around the real supervisor with scripted service trees (failure kinds, times, exit latencies)"),
 "spysim": (["C20"], "synctest bubble around the real spy server with fake gRPC streams that stall and disconnect"),
 "alphsim": (["C08","C09"], "simulated Alephium full node (HTTP RoundTripper) under the real watcher, parked requests, reorgs, RPC faults"),
 "evmsim": (["C10"], "simulated EVM JSON-RPC node (in-proc go-ethereum rpc.Server) under the real watcher"),
 "gstsim": (["C19"], "seeded cooperative scheduler over a yield-instrumented scratch copy of the explorer's guardian-set cache; race-detector pass on the unmodified file"),
 "explsim": (["C19"], "explorer gossip consumer + guardian-set cache against a simulated chain; statement-level interleavings of lookups and appends"),
}
checks = []
for pid in ALL:
    if pid in CHECKS:
        eng, tech, text, ref = CHECKS[pid]
        checks.append({
            "property_id": pid, "quick_cmd": "bin/check %s --tier quick" % pid, "thorough_cmd": "bin/check %s --tier thorough" % pid,
            "evidence_file": "evidence/%s.json" % pid, "replay_cmd_template": "bin/check replay {path}", "engine": eng,
            "level_claimed": {"category": "exploration", "text": text, "design_ref": "DESIGN.md " + ref},
            "level_note": TB, "technique": tech})
na = []
for pid in ALL:
    if pid in CHECKS:
        continue
    na.append({"property_id": pid, "reason": NA.get(pid, "check not built yet in this session (planned in DESIGN.md section 3); not claimed until its harness passes the determinism self-test")})
hooks_commits = []
hp = os.path.join(V, "tools", "hook_commits.txt")
if os.path.exists(hp):
    hooks_commits = [l.strip() for l in open(hp) if l.strip()]
m = {
 "version": 1, "setup_cmd": "bin/check setup",
 "hooks": {"guard": "verif", "enable": "go test -tags verif, plus -overlay adding /verif/harness/<h>/*_test.go into the package under test and -modfile=.build/<mod>.mod (see bin/check build())",
           "baseline_off_cmd": "for m in ./clients/eth ./explorer-api-server ./explorer-backend ./node; do (cd /repo/$m && go test -mod=mod -json -vet=off -count=1 -timeout 25m ./...); done",
           "source_commits": hooks_commits, "add_only": True},
 "engines": [{"name": k, "path": "harness/" + k, "serves_properties": v[0], "kind_free_text": v[1]} for k, v in ENGINES.items() if os.path.isdir(os.path.join(V, "harness", k))],
 "checks": checks, "not_applicable": na,
 "notes": "Deterministic simulation with fault injection; see DESIGN.md. known_findings.json lists confirmed defects (fixed ones suppress nothing). Exit 2 = build/harness trouble, never a violation.",
}
json.dump(m, open(os.path.join(V, "MANIFEST.json"), "w"), indent=1)
print("claimed:", [c["property_id"] for c in checks])
