#!/usr/bin/env python3
"""Copy evaluated seeded changes into /verif/seeded/<id>-w<wave>m<k>/ : patch.diff, the demonstration
and meta.json (which property the change breaks, what it needs in order to manifest, what was run
and with which outcome, and the history of earlier evaluations of the same change).

Input: the result files that tools/evalmut.py wrote under /tmp/mut/eval_results:
  final-<sub>-<id>-m<k>.json   the evaluation against the checks as committed (sub = out|out2|out2r|out3)
  <id>-m<k>.json, w2-<id>-m<k>.json, re-<sub>-<id>-m<k>.json   earlier evaluations (history only)
Only changes whose demonstration was confirmed (fails with the change, passes without, existing
tests of the touched packages still pass) are kept; the others are listed in seeded/REJECTED.json.
Also writes seeded/SUMMARY.json, from which DESIGN.md section 7 is written."""
import glob, json, os, re, shutil

V = os.path.dirname(os.path.dirname(os.path.abspath(__file__)))
RES = "/tmp/mut/eval_results"
out_root = os.path.join(V, "seeded")
WAVE = {"out": 1, "outr": 1, "out2": 2, "out2r": 2, "out3": 3, "out3r": 3, "out4": 4, "out4r": 4, "out5": 5, "out5r": 5, "out6": 6, "out6r": 6}


def load(p):
    try:
        return json.load(open(p))
    except Exception:
        return None


def agent_meta(src):
    mp = os.path.join(src, "meta.json")
    if not os.path.exists(mp):
        return {}
    try:
        return json.load(open(mp))
    except ValueError:
        t = open(mp).read()
        out = {}
        for k in ("summary", "needs"):
            m = re.search(r'"%s"\s*:\s*"(.*?)",?\s*\n' % k, t, re.S)
            if m:
                out[k] = m.group(1)
        return out


def brief(r):
    if not r:
        return None
    return {"caught": bool(r.get("caught")), "checks": {p: {"exit": c.get("exit"), "lines": [l[:300] for l in c.get("lines", [])[:3]]} for p, c in r.get("checks", {}).items()}}


summary, rejected = [], []
for rp in sorted(glob.glob(os.path.join(RES, "final-*.json"))):
    m = re.match(r"final-(out\w*)-(C\d+)-m(\d)\.json$", os.path.basename(rp))
    if not m:
        continue
    sub, pid, k = m.group(1), m.group(2), m.group(3)
    name = "%s-w%dm%s%s" % (pid, WAVE[sub], k, "r" if sub.endswith("r") else "")
    r = load(rp)
    if r is None:
        rejected.append({"name": name, "why": "result file unparsable"})
        continue
    st = r.get("steps", {})
    if not st.get("applies"):
        rebased = os.path.exists(os.path.join(RES, "final-%sr-%s-m%s.json" % (sub, pid, k)))
        rejected.append({"name": name, "why": "the author's patch no longer applies to the HEAD of /repo (a later fix: commit changed the same lines)" + ("; the same change re-applied by hand is kept as %sr" % name if rebased else "")})
        continue
    if not (st.get("demo_passes_on_head") and st.get("demo_fails_with_change") and st.get("existing_tests_pass_with_change")):
        rejected.append({"name": name, "why": "not confirmed", "steps": st})
        continue
    src = r["dir"]
    dst = os.path.join(out_root, name)
    shutil.rmtree(dst, ignore_errors=True)
    os.makedirs(dst)
    for f in os.listdir(src):
        if f.endswith(".diff") or f.endswith(".go"):
            shutil.copy(os.path.join(src, f), os.path.join(dst, f))
    agent = agent_meta(src)
    hist = []
    early = {"out": ["%s-m%s.json" % (pid, k)], "out2": ["w2-%s-m%s.json" % (pid, k)], "out3": ["w3-%s-m%s.json" % (pid, k)],
             "out4": ["w4-%s-m%s.json" % (pid, k)], "out5": ["w5-%s-m%s.json" % (pid, k)], "out6": ["w6-%s-m%s.json" % (pid, k)]}.get(sub[:-1] if sub.endswith("r") else sub, [])
    for label, fn in [("first evaluation, against the checks as they were when the change was produced", f) for f in early] + \
                     [("re-evaluation after the checks were strengthened", "re-%s-%s-m%s.json" % (sub, pid, k))]:
        b = brief(load(os.path.join(RES, fn)))
        if b:
            hist.append(dict(when=label, **b))
    meta = {
        "property": pid,
        "wave": WAVE[sub],
        "summary": agent.get("summary", ""),
        "needs": agent.get("needs", ""),
        "files": r.get("touched", []),
        "author_ran": agent.get("ran", []),
        "confirmed_in_scratch_worktree": {
            "patch_applies_to_HEAD": True,
            "demonstration_passes_on_HEAD": True,
            "demonstration_fails_with_change": True,
            "existing_tests_of_touched_packages_pass_with_change": r.get("existing_tests", {}),
            "how": "tools/evalmut.py in a scratch worktree of /repo (git worktree add <dir> HEAD; git apply patch.diff; go test with the quic-stub modfile; "
                   "bin/check <id> --tier quick with VERIF_REPO=<dir>; git checkout -- .); /repo itself was never touched",
        },
        "checks_run_against_the_change": r.get("checks", {}),
        "caught_by_quick_check": bool(r.get("caught")),
        "history": hist,
    }
    if sub.endswith("r"):
        meta["note"] = "the author's patch was written against the tree before a later fix: commit touched the same lines; this is the same change re-applied by hand to the current code"
    json.dump(meta, open(os.path.join(dst, "meta.json"), "w"), indent=1)
    keys = sorted({re.search(r"key=(\S+)", l).group(1) for c in r.get("checks", {}).values() for l in c.get("lines", []) if l.startswith("VIOLATION") and re.search(r"key=(\S+)", l)})
    first = hist[0]["caught"] if hist else None
    summary.append({"name": name, "property": pid, "wave": WAVE[sub], "summary": meta["summary"][:300], "caught": meta["caught_by_quick_check"], "keys": keys[:4],
                    "caught_at_first_evaluation": first})
json.dump(summary, open(os.path.join(out_root, "SUMMARY.json"), "w"), indent=1)
json.dump(rejected, open(os.path.join(out_root, "REJECTED.json"), "w"), indent=1)
for s in summary:
    print(s["name"], "caught" if s["caught"] else "MISSED", "(first: %s)" % s["caught_at_first_evaluation"], ",".join(s["keys"])[:120])
for r in rejected:
    print("rejected:", r["name"], r["why"][:100])
