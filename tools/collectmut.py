#!/usr/bin/env python3
"""Copy evaluated seeded changes (tools/evalmut.py results under /tmp/mut/eval_results) into
/verif/seeded/<id>-m<k>/ : patch.diff, the demonstration, and meta.json (which property it breaks,
what it needs in order to manifest, what was run and with which outcome). Only changes whose
demonstration was confirmed (fails with the change, passes without, existing tests still pass)
are kept."""
import json, os, shutil, sys, glob
V = os.path.dirname(os.path.dirname(os.path.abspath(__file__)))
out_root = os.path.join(V, "seeded")
kept = []
for rp in sorted(glob.glob("/tmp/mut/eval_results/C*-m*.json")):
    try:
        r = json.load(open(rp))
    except ValueError:
        print("unparsable", rp); continue
    st = r.get("steps", {})
    name = os.path.basename(rp)[:-5]
    if not (st.get("applies") and st.get("demo_passes_on_head") and st.get("demo_fails_with_change") and st.get("existing_tests_pass_with_change")):
        print("not confirmed:", name, st); continue
    src = r["dir"]
    dst = os.path.join(out_root, name)
    os.makedirs(dst, exist_ok=True)
    for f in os.listdir(src):
        if f.endswith(".diff") or f.endswith(".go"):
            shutil.copy(os.path.join(src, f), os.path.join(dst, f))
    agent = {}
    try:
        agent = json.load(open(os.path.join(src, "meta.json")))
    except Exception:
        pass
    prev = {}
    if os.path.exists(os.path.join(dst, "meta.json")):
        try:
            prev = json.load(open(os.path.join(dst, "meta.json")))
        except ValueError:
            prev = {}
    meta = {
        "property": r["property"],
        "summary": agent.get("summary", prev.get("summary", "")),
        "needs": agent.get("needs", prev.get("needs", "")),
        "files": r.get("touched", []),
        "author_ran": agent.get("ran", prev.get("author_ran", [])),
        "confirmed_in_scratch_worktree": {
            "patch_applies_to_HEAD": True,
            "demonstration_passes_on_HEAD": True,
            "demonstration_fails_with_change": True,
            "existing_tests_of_touched_packages_pass_with_change": r.get("existing_tests", {}),
            "how": "tools/evalmut.py in a scratch worktree of /repo (git worktree add /tmp/mut/eval HEAD; git apply patch.diff; go test with the quic-stub modfile; git checkout -- .)",
        },
        "checks_run_against_the_change": r.get("checks", {}),
        "caught_by_quick_check": bool(r.get("caught")),
        "history": prev.get("history", []),
    }
    json.dump(meta, open(os.path.join(dst, "meta.json"), "w"), indent=1)
    kept.append((name, meta["caught_by_quick_check"]))
for n, c in kept:
    print(n, "caught" if c else "MISSED")
