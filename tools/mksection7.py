#!/usr/bin/env python3
"""Rewrites section 7 of DESIGN.md (which checks catch which seeded changes) from seeded/SUMMARY.json
and seeded/REJECTED.json, as written by tools/collectmut.py."""
import json, os, re
V = os.path.dirname(os.path.dirname(os.path.abspath(__file__)))
S = json.load(open(os.path.join(V, "seeded", "SUMMARY.json")))
R = json.load(open(os.path.join(V, "seeded", "REJECTED.json")))
NOTES = {}
np = os.path.join(V, "seeded", "NOTES.json")
if os.path.exists(np):
    NOTES = json.load(open(np))


def esc(t):
    return t.replace("|", "\\|").replace("\n", " ")


out = []
out.append("## 7. Sensitivity log: independently seeded changes\n")
out.append("""Every change below was written by a fresh sub-agent that was given only the text of one property and
a scratch git worktree of /repo (nothing from /verif), with the instruction to break the property
while the code still compiles and the existing tests still pass, and to supply a demonstration.
A change is kept only after `tools/evalmut.py` confirmed in a scratch worktree that the patch applies to
HEAD, the demonstration fails with it and passes without it, and the existing tests of the touched
packages pass with it; then the registered quick check of the property is run with `VERIF_REPO`
pointing at that worktree. /repo itself is never touched. Waves 2-6 were told what the earlier
waves had produced and asked for something substantially different (wave 6: six properties only, the ones whose checks had
caught least at first evaluation in waves 4 and 5; two changes each; wave 7: one change each for C01, C02, C03, C10, C12, C13, C14, C17, C19 and C20 (a C18 change
was produced too, but its evaluation did not finish within the session and it is not kept), written in a later session by agents told nothing of the earlier waves). Each change is in
`seeded/<name>/` (`patch.diff`, the demonstration, `meta.json` with what it needs to manifest, what
was run, and the history of evaluations).

"first" = outcome of the first evaluation, against the checks as they were when the change was
produced; "now" = outcome against the checks as committed. Where the two differ the check was
strengthened in between (section 3.x says how); a change that is caught by the check of a sibling
property rather than by its own is marked so.
""")
waves = sorted({s["wave"] for s in S})
tot = {}
for w in waves:
    rows = [s for s in S if s["wave"] == w]
    first = [s for s in rows if s.get("caught_at_first_evaluation") is not None]
    tot[w] = (len(rows), sum(1 for s in first if s["caught_at_first_evaluation"]), len(first), sum(1 for s in rows if s["caught"]))
out.append("| wave | changes kept | caught at first evaluation | caught now |\n|---|---|---|---|")
for w in waves:
    n, f, fn, c = tot[w]
    out.append("| %d | %d | %s | %d |" % (w, n, ("%d of %d" % (f, fn)) if fn else "-", c))
out.append("")
out.append("| change | what it does (author's summary, shortened) | first | now | witness keys of the check |\n|---|---|---|---|---|")
for s in sorted(S, key=lambda x: (x["property"], x["wave"], x["name"])):
    first = s.get("caught_at_first_evaluation")
    f = "-" if first is None else ("caught" if first else "missed")
    now = "caught" if s["caught"] else "**missed**"
    note = NOTES.get(s["name"], "")
    keys = ", ".join("`%s`" % k for k in s["keys"][:3])
    if note:
        keys = (keys + " - " if keys else "") + note
    out.append("| %s | %s | %s | %s | %s |" % (s["name"], esc(s["summary"][:230]), f, now, keys))
out.append("")
if R:
    out.append("Not kept:\n")
    for r in R:
        out.append("* %s: %s" % (r["name"], esc(r["why"])))
    out.append("")
text = "\n".join(out) + "\n"
p = os.path.join(V, "DESIGN.md")
d = open(p).read()
i = d.index("## 7. Sensitivity log")
j = d.index("## 8. Trusted base and limits")
open(p, "w").write(d[:i] + text + d[j:])
print("section 7 rewritten: %d changes, %d not kept" % (len(S), len(R)))
