#!/bin/sh
# evaluate every seeded change found under /tmp/mut/<id>/out/m<k> (development aid); results in /tmp/mut/eval_results
cd "$(dirname "$0")/.." || exit 2
mkdir -p /tmp/mut/eval_results
for p in ${PROPS:-C01 C02 C03 C08 C09 C10 C12 C13 C14 C16 C17 C18 C19 C20}; do
  for k in 1 2 3; do
    d=/tmp/mut/$p/out/m$k
    [ -f "$d/patch.diff" ] || continue
    [ -n "$ONLY_MISSING" ] && [ -s "/tmp/mut/eval_results/$p-m$k.json" ] && continue
    timeout 3000 python3 tools/evalmut.py "$p" "$d" > "/tmp/mut/eval_results/$p-m$k.json" 2>&1
    echo "$p m$k caught=$(grep -c '"caught": true' "/tmp/mut/eval_results/$p-m$k.json")"
  done
done
