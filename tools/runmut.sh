#!/bin/sh
# evaluate every seeded change found under /tmp/mut/<id>/$OUTSUB/m<k> (development aid); results in /tmp/mut/eval_results
# env: PROPS (ids), OUTSUB (out|out2), PREFIX (result file prefix), ONLY_MISSING=1, EVAL_TREE, EVAL_BUILD
cd "$(dirname "$0")/.." || exit 2
mkdir -p /tmp/mut/eval_results
OUTSUB=${OUTSUB:-out}
for p in ${PROPS:-C01 C02 C03 C08 C09 C10 C12 C13 C14 C16 C17 C18 C19 C20}; do
  for k in 1 2 3; do
    d=/tmp/mut/$p/$OUTSUB/m$k
    r=/tmp/mut/eval_results/${PREFIX}$p-m$k.json
    [ -f "$d/patch.diff" ] || continue
    [ -n "$ONLY_MISSING" ] && [ -s "$r" ] && grep -q '"caught"' "$r" && continue
    timeout 3000 python3 tools/evalmut.py "$p" "$d" > "$r" 2>&1
    echo "${PREFIX}$p m$k caught=$(grep -c '"caught": true' "$r")"
  done
done
