#!/bin/sh
# stop a running batch of seeded-change evaluations (development aid)
for pid in $(pgrep -f "python3 tools/[e]valmut" ); do kill "$pid" 2>/dev/null; done
for pid in $(pgrep -f "[r]unmut.sh"); do kill "$pid" 2>/dev/null; done
exit 0
