#!/usr/bin/env python3
"""Evaluate one seeded change (produced by an independent sub-agent) against the checks.

  tools/evalmut.py <property id> <dir with patch.diff + demo_test.go [+ meta.json]> [--props C01,C02] [--tier quick]

Steps, all in a scratch worktree of /repo (never in /repo itself):
  1. the patch applies to HEAD and the affected packages build;
  2. the demonstration FAILS with the patch and PASSES without it;
  3. the existing tests of the touched packages still pass with the patch;
  4. the registered check(s) of the property are run against the patched tree (VERIF_REPO=<worktree>).
Prints a JSON summary; with --keep the artefacts are copied to /verif/seeded/<id>-<name>/.
"""
import json, os, re, shutil, subprocess, sys

VERIF = os.path.dirname(os.path.dirname(os.path.abspath(__file__)))
EVAL = os.environ.get("EVAL_TREE", "/tmp/mut/eval")
TOOLS = "/tmp/mut/tools"
ENV = dict(os.environ, GOFLAGS="-mod=mod", GOPROXY="off", GOSUMDB="off", GOTOOLCHAIN="local")


def sh(cmd, cwd=None, timeout=1800, env=None):
    p = subprocess.run(cmd, cwd=cwd, shell=isinstance(cmd, str), capture_output=True, text=True, timeout=timeout, env=env or ENV)
    return p.returncode, p.stdout + p.stderr


def ensure_tree():
    if not os.path.isdir(EVAL):
        rc, out = sh(["git", "-C", "/repo", "worktree", "add", "-q", "--detach", EVAL, "HEAD"])
        if rc:
            sys.exit("cannot create eval worktree: " + out)
    sh("git checkout -q --detach $(git -C /repo rev-parse HEAD) && git checkout -- . && git clean -fdq", cwd=EVAL)


def pkg_dir_of(demo_text):
    m = re.search(r"^package\s+(\w+)", demo_text, re.M)
    name = m.group(1) if m else ""
    expl = "explorer-backend" in demo_text and "wormhole-fork/explorer-backend" in demo_text
    table = {
        "processor": "explorer-backend/processor" if expl and "node/pkg/processor\"" not in demo_text.split("import")[0] and "guardiansets" in demo_text else "node/pkg/processor",
        "db": "node/pkg/db", "publicrpc": "node/pkg/publicrpc", "alephium": "node/pkg/alephium", "ethereum": "node/pkg/ethereum",
        "supervisor": "node/pkg/supervisor", "spy": "node/cmd/spy", "guardiand": "node/cmd/guardiand", "p2p": "node/pkg/p2p",
        "common": "node/pkg/common", "vaa": "node/pkg/vaa", "guardiansets": "explorer-backend/guardiansets", "deduplicator": "explorer-backend/deduplicator",
    }
    # an explicit hint in the header comment wins
    hint = re.search(r"((?:node|explorer-backend)/(?:pkg|cmd)?/?[\w/-]+)", demo_text[:1500])
    d = table.get(name.replace("_test", ""))
    # ... but only a hint that names a directory of this very package (an import path of another package in the header is not one)
    if hint and os.path.isdir(os.path.join(EVAL, hint.group(1).rstrip("/"))) and (d is None or os.path.basename(hint.group(1).rstrip("/")) == os.path.basename(d)):
        d = hint.group(1).rstrip("/")
    return d, name


def go_test(pkgdir, run=None, race=False, timeout=900):
    mod = "node" if pkgdir.startswith("node/") else "explorer-backend"
    modfile = os.path.join(TOOLS, "node.mod" if mod == "node" else "explorer.mod")
    rel = "./" + pkgdir[len(mod) + 1:]
    cmd = ["go", "test", "-vet=off", "-count=1", "-modfile=" + modfile]
    if race:
        cmd.append("-race")
    if run:
        cmd += ["-run", run]
    cmd.append(rel)
    return sh(cmd, cwd=os.path.join(EVAL, mod), timeout=timeout)


def main():
    args = sys.argv[1:]
    keep = "--keep" in args
    if keep:
        args.remove("--keep")
    reuse = None
    if "--reuse-steps" in args:
        # the demonstration and the existing tests were already run for this change (same patch, same
        # HEAD of /repo apart from later fix: commits): take those outcomes from an earlier result file
        i = args.index("--reuse-steps"); reuse = args[i + 1]; del args[i:i + 2]
    tier = "quick"
    props = None
    if "--tier" in args:
        i = args.index("--tier"); tier = args[i + 1]; del args[i:i + 2]
    if "--props" in args:
        i = args.index("--props"); props = args[i + 1].split(","); del args[i:i + 2]
    pid, mdir = args[0], os.path.abspath(args[1])
    props = props or [pid]
    patch = os.path.join(mdir, "patch.diff")
    demos = [f for f in os.listdir(mdir) if f.endswith("_test.go") or f.endswith(".go")]
    summary = {"property": pid, "dir": mdir, "steps": {}}
    ensure_tree()
    rc, out = sh(["git", "apply", "--check", patch], cwd=EVAL)
    summary["steps"]["applies"] = rc == 0
    if rc:
        summary["error"] = out[-800:]
        print(json.dumps(summary, indent=1)); return 1
    touched = re.findall(r"^\+\+\+ b/(\S+)", open(patch).read(), re.M)
    summary["touched"] = touched
    demo_file = os.path.join(mdir, demos[0]) if demos else None
    demo_text = open(demo_file).read() if demo_file else ""
    pkgdir, pkgname = pkg_dir_of(demo_text)
    summary["demo_pkg"] = pkgdir
    tests = "|".join(sorted(set(re.findall(r"^func (Test\w+)\(", demo_text, re.M))))
    race = "-race" in demo_text[:2500]
    dst = os.path.join(EVAL, pkgdir, "zz_seeded_demo_test.go") if pkgdir else None

    def run_demo():
        shutil.copy(demo_file, dst)
        rc, out = go_test(pkgdir, run="^(%s)$" % tests, race=race)
        os.remove(dst)
        return rc, out

    prev = None
    if reuse and os.path.exists(reuse):
        try:
            prev = json.load(open(reuse))
        except ValueError:
            prev = None
        if prev and not (prev.get("steps", {}).get("demo_passes_on_head") and prev["steps"].get("demo_fails_with_change") and prev["steps"].get("existing_tests_pass_with_change")):
            prev = None
    if prev:
        sh(["git", "apply", patch], cwd=EVAL)
        summary["steps"].update({k: prev["steps"][k] for k in ("demo_passes_on_head", "demo_fails_with_change", "existing_tests_pass_with_change")})
        summary["steps"]["reused_from"] = os.path.basename(reuse)
        summary["existing_tests"] = prev.get("existing_tests", {})
    elif dst and tests:
        rc0, out0 = run_demo()                      # on HEAD
        sh(["git", "apply", patch], cwd=EVAL)
        rc1, out1 = run_demo()                      # with the change
        summary["steps"]["demo_passes_on_head"] = rc0 == 0
        summary["steps"]["demo_fails_with_change"] = rc1 != 0
        if rc0 != 0:
            summary["demo_head_output"] = out0[-1200:]
        if rc1 == 0:
            summary["demo_change_output"] = out1[-600:]
    else:
        sh(["git", "apply", patch], cwd=EVAL)
        summary["steps"]["demo"] = "not runnable automatically"
    # existing tests of touched packages, with the change
    ok = True
    details = {}
    for d in ([] if prev else sorted({os.path.dirname(t) for t in touched})):
        rc, out = go_test(d)
        good = rc == 0 or "no test files" in out
        if not good and "TestDisableBlockPoller" in out:
            rc, out = go_test(d)  # known timing-flaky test of pkg/alephium (fails on HEAD as well, now and then)
            good = rc == 0
        details[d] = "ok" if good else out[-600:]
        ok = ok and good
    if not prev:
        summary["steps"]["existing_tests_pass_with_change"] = ok
        summary["existing_tests"] = details
    # the checks
    summary["checks"] = {}
    for p in props:
        env = dict(os.environ, VERIF_REPO=EVAL, VERIF_TIER=tier, VERIF_BUILD=os.environ.get("EVAL_BUILD", "/tmp/mut/build"))
        rc, out = sh([os.path.join(VERIF, "bin/check"), p, "--tier", tier], cwd=VERIF, env=env, timeout=3600)
        lines = [l for l in out.splitlines() if l.startswith("VIOLATION") or l.startswith("KNOWN-FINDING") or l.startswith("HARNESS-TROUBLE") or " runs, " in l]
        summary["checks"][p] = {"exit": rc, "lines": [l[:400] for l in lines[:8]]}
    sh("git checkout -- . && git clean -fdq", cwd=EVAL)
    caught = any(c["exit"] == 1 for c in summary["checks"].values())
    summary["caught"] = caught
    if keep:
        name = os.path.basename(os.path.dirname(mdir.rstrip("/"))) if False else "%s-%s" % (pid, os.path.basename(mdir.rstrip("/")))
        out_dir = os.path.join(VERIF, "seeded", name)
        os.makedirs(out_dir, exist_ok=True)
        for f in os.listdir(mdir):
            shutil.copy(os.path.join(mdir, f), os.path.join(out_dir, f))
        meta = {}
        mp = os.path.join(out_dir, "meta.json")
        if os.path.exists(mp):
            try:
                meta = json.load(open(mp))
            except ValueError:
                meta = {"agent_meta_unparsable": True}
        meta["property"] = pid
        meta["verified_by_evalmut"] = summary["steps"]
        meta["checks_run"] = summary["checks"]
        meta["caught"] = caught
        json.dump(meta, open(mp, "w"), indent=1)
    print(json.dumps(summary, indent=1))
    return 0


if __name__ == "__main__":
    sys.exit(main())
