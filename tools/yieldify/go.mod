module verif.local/yieldify

go 1.19
