// yieldify rewrites a scratch copy of a Go source file so that a deterministic scheduler decides
// every interleaving: before each statement of every method of the given receiver type a call
// verifYield("<func>:<line>") is inserted, and <recv>.<mutex>.Lock()/Unlock() become
// verifLock(&<recv>.<mutex>)/verifUnlock(&<recv>.<mutex>) (a cooperative lock that yields while
// it is held by another task). The harness supplies verifYield/verifLock/verifUnlock.
//
//	yieldify -in gst_data.go -out scratch.go -recv GuardianSets
package main

import (
	"bytes"
	"flag"
	"fmt"
	"go/ast"
	"go/format"
	"go/parser"
	"go/token"
	"os"
	"strconv"
)

func main() {
	in := flag.String("in", "", "input file")
	out := flag.String("out", "", "output file")
	recv := flag.String("recv", "", "receiver type whose methods are rewritten")
	flag.Parse()
	fset := token.NewFileSet()
	f, err := parser.ParseFile(fset, *in, nil, parser.ParseComments)
	if err != nil {
		fmt.Fprintln(os.Stderr, err)
		os.Exit(1)
	}
	n := 0
	for _, d := range f.Decls {
		fd, ok := d.(*ast.FuncDecl)
		if !ok || fd.Recv == nil || fd.Body == nil || len(fd.Recv.List) != 1 {
			continue
		}
		t := fd.Recv.List[0].Type
		if s, ok := t.(*ast.StarExpr); ok {
			t = s.X
		}
		if id, ok := t.(*ast.Ident); !ok || id.Name != *recv {
			continue
		}
		rewriteLocks(fd.Body)
		fd.Body.List = instrument(fset, fd.Name.Name, fd.Body.List)
		n++
	}
	if n == 0 {
		fmt.Fprintln(os.Stderr, "yieldify: no method of", *recv, "found")
		os.Exit(1)
	}
	f.Comments = nil // positions are no longer meaningful
	var buf bytes.Buffer
	if err := format.Node(&buf, fset, f); err != nil {
		fmt.Fprintln(os.Stderr, err)
		os.Exit(1)
	}
	if err := os.WriteFile(*out, buf.Bytes(), 0o644); err != nil {
		fmt.Fprintln(os.Stderr, err)
		os.Exit(1)
	}
}

func yieldStmt(fset *token.FileSet, fn string, pos token.Pos) ast.Stmt {
	lbl := fn + ":" + strconv.Itoa(fset.Position(pos).Line)
	return &ast.ExprStmt{X: &ast.CallExpr{Fun: ast.NewIdent("verifYield"), Args: []ast.Expr{&ast.BasicLit{Kind: token.STRING, Value: strconv.Quote(lbl)}}}}
}

func instrument(fset *token.FileSet, fn string, list []ast.Stmt) []ast.Stmt {
	var out []ast.Stmt
	for _, st := range list {
		switch s := st.(type) {
		case *ast.BlockStmt:
			s.List = instrument(fset, fn, s.List)
		case *ast.IfStmt:
			instrumentIf(fset, fn, s)
		case *ast.ForStmt:
			s.Body.List = instrument(fset, fn, s.Body.List)
		case *ast.RangeStmt:
			s.Body.List = instrument(fset, fn, s.Body.List)
		case *ast.SwitchStmt:
			for _, c := range s.Body.List {
				cc := c.(*ast.CaseClause)
				cc.Body = instrument(fset, fn, cc.Body)
			}
		case *ast.SelectStmt:
			for _, c := range s.Body.List {
				cc := c.(*ast.CommClause)
				cc.Body = instrument(fset, fn, cc.Body)
			}
		}
		if _, isDecl := st.(*ast.DeclStmt); !isDecl {
			out = append(out, yieldStmt(fset, fn, st.Pos()))
		}
		out = append(out, st)
	}
	return out
}

func instrumentIf(fset *token.FileSet, fn string, s *ast.IfStmt) {
	s.Body.List = instrument(fset, fn, s.Body.List)
	switch e := s.Else.(type) {
	case *ast.BlockStmt:
		e.List = instrument(fset, fn, e.List)
	case *ast.IfStmt:
		instrumentIf(fset, fn, e)
	}
}

// rewriteLocks turns x.y.Lock() / x.y.Unlock() into verifLock(&x.y) / verifUnlock(&x.y).
func rewriteLocks(body *ast.BlockStmt) {
	ast.Inspect(body, func(n ast.Node) bool {
		call, ok := n.(*ast.CallExpr)
		if !ok {
			return true
		}
		sel, ok := call.Fun.(*ast.SelectorExpr)
		if !ok || len(call.Args) != 0 {
			return true
		}
		name := ""
		switch sel.Sel.Name {
		case "Lock":
			name = "verifLock"
		case "Unlock":
			name = "verifUnlock"
		case "RLock":
			name = "verifLock"
		case "RUnlock":
			name = "verifUnlock"
		default:
			return true
		}
		if _, ok := sel.X.(*ast.SelectorExpr); !ok {
			return true
		}
		call.Fun = ast.NewIdent(name)
		call.Args = []ast.Expr{&ast.UnaryExpr{Op: token.AND, X: sel.X}}
		return true
	})
}
