module verif.local/simkit

go 1.19
