package simkit

import (
	"bufio"
	"encoding/json"
	"fmt"
	"os"
	"runtime"
	"strconv"
	"strings"
	"time"
)

// watchdog turns a run that hangs (a wait that testing/synctest does not consider durable, a real
// deadlock) into prompt harness trouble (exit 2) with a goroutine dump, instead of stalling the
// whole check until the orchestrator's worker time-out. It uses the real clock on purpose.
func watchdog(seed uint64) *time.Timer {
	limit := 300 * time.Second
	if v, err := strconv.Atoi(os.Getenv("VERIF_RUN_TIMEOUT")); err == nil && v > 0 {
		limit = time.Duration(v) * time.Second
	}
	return time.AfterFunc(limit, func() {
		buf := make([]byte, 1<<20)
		n := runtime.Stack(buf, true)
		first := string(buf[:n])
		// A goroutine started by the code under test that is executing (not waiting for anything)
		// now and again two seconds later, in the same function, while the run made no progress for
		// the whole limit, is a busy loop: no simulator that waits for quiescence can get past it.
		// It is reported as what it is (the orchestrator turns it into a violation and re-executes
		// the program); every other hang is harness trouble.
		if repo := os.Getenv("VERIF_REPO_PREFIX"); repo != "" {
			if a := spinning(first, repo); len(a) > 0 {
				time.Sleep(2 * time.Second)
				n = runtime.Stack(buf, true)
				b := spinning(string(buf[:n]), repo)
				for id, fn := range a {
					if b[id] == fn {
						fmt.Fprintf(os.Stderr, "WATCHDOG seed=%d exceeded %v of real time\n%s\n", seed, limit, first)
						fmt.Fprintf(os.Stderr, "BUSY-LOOP seed=%d func=%s\n", seed, fn)
						os.Exit(3)
					}
				}
			}
		}
		fmt.Fprintf(os.Stderr, "WATCHDOG seed=%d exceeded %v of real time\n%s\n", seed, limit, first)
		fmt.Printf("HARNESS-TROUBLE: watchdog: run with seed %d exceeded %v of real time (goroutine dump on stderr)\n", seed, limit)
		os.Exit(2)
	})
}

// spinning returns goroutine id -> function for goroutines of a dump that are running or runnable,
// were started by the code under test (no harness frame anywhere on their stack) and have a frame
// in the repository under test; the function is that of the outermost such frame (a spinning loop
// is caught in different callees from one dump to the next).
func spinning(dump, repo string) map[string]string {
	out := map[string]string{}
	for _, blk := range strings.Split(dump, "\n\n") {
		lines := strings.Split(blk, "\n")
		if len(lines) < 3 || !strings.HasPrefix(lines[0], "goroutine ") {
			continue
		}
		if !strings.Contains(lines[0], "[running") && !strings.Contains(lines[0], "[runnable") {
			continue
		}
		if !strings.Contains(lines[0], "synctest bubble") {
			continue // helpers outside the simulation (e.g. the supervisor that only lends its logger) tick in real time
		}
		if strings.Contains(blk, "/zz_verif_") || strings.Contains(blk, "simkit.watchdog") {
			continue
		}
		id := strings.Fields(lines[0])[1]
		for i := 1; i+1 < len(lines); i += 2 {
			loc := strings.TrimSpace(lines[i+1])
			if strings.HasPrefix(loc, repo+"/") && !strings.HasPrefix(lines[i], "created by ") {
				fn := lines[i]
				if k := strings.LastIndex(fn, "("); k > 0 {
					fn = fn[:k]
				}
				out[id] = fn // keep going: the outermost frame in the repository names the loop
			}
		}
	}
	return out
}

// Harness is implemented by every simulator under /verif/harness.
type Harness interface {
	Name() string
	// Gen turns one integer into a complete scenario program. No other randomness exists.
	Gen(seed uint64, prop, tier string) *Program
	// Exec runs the program against the real code and evaluates the oracles.
	Exec(p *Program) *Result
}

// Main is the worker loop. Protocol (environment):
//
//	VERIF_PROP   property id whose generator profile and oracles are selected
//	VERIF_TIER   quick | thorough
//	VERIF_SEEDS  "start:count" block of seeds to run
//	VERIF_OUT    file receiving one JSON Result per line
//	VERIF_REPLAY path of a program (or replay) file to execute instead of generating
//	VERIF_LOG=1  include the canonical log in each Result
//	VERIF_SAMPLE_EVERY=k include the program of every k-th run (evidence samples)
//
// It returns a non-empty string on harness trouble (exit 2 territory), never for violations.
func Main(h Harness) string {
	prop := os.Getenv("VERIF_PROP")
	tier := os.Getenv("VERIF_TIER")
	if tier == "" {
		tier = "quick"
	}
	outPath := os.Getenv("VERIF_OUT")
	if outPath == "" {
		return "VERIF_OUT not set"
	}
	f, err := os.Create(outPath)
	if err != nil {
		return err.Error()
	}
	defer f.Close()
	w := bufio.NewWriter(f)
	defer w.Flush()
	keepLog := os.Getenv("VERIF_LOG") == "1"
	emit := func(r *Result, p *Program, sample bool) {
		if len(r.Violations) > 0 || sample {
			r.Program = p
		}
		if !keepLog && len(r.Violations) == 0 {
			r.Log = nil
		}
		b, _ := json.Marshal(r)
		w.Write(b)
		w.WriteByte('\n')
		w.Flush()
	}

	if rp := os.Getenv("VERIF_REPLAY"); rp != "" {
		b, err := os.ReadFile(rp)
		if err != nil {
			return err.Error()
		}
		var file struct {
			Program *Program `json:"program"`
		}
		if err := json.Unmarshal(b, &file); err != nil || file.Program == nil {
			var p Program
			if err2 := json.Unmarshal(b, &p); err2 != nil {
				return "cannot parse replay file: " + err2.Error()
			}
			file.Program = &p
		}
		p := file.Program
		if p.Harness != h.Name() {
			return fmt.Sprintf("replay file is for harness %q, this is %q", p.Harness, h.Name())
		}
		fmt.Fprintf(os.Stderr, "RUN seed=%d replay\n", p.Seed)
		keepLog = true
		wd := watchdog(p.Seed)
		r := h.Exec(p)
		wd.Stop()
		emit(r, p, true)
		return ""
	}

	if prop == "" {
		return "VERIF_PROP not set"
	}
	parts := strings.Split(os.Getenv("VERIF_SEEDS"), ":")
	if len(parts) != 2 {
		return "VERIF_SEEDS must be start:count"
	}
	start, e1 := strconv.ParseUint(parts[0], 10, 64)
	count, e2 := strconv.ParseUint(parts[1], 10, 64)
	if e1 != nil || e2 != nil {
		return "VERIF_SEEDS must be start:count"
	}
	every, _ := strconv.ParseUint(os.Getenv("VERIF_SAMPLE_EVERY"), 10, 64)
	for i := uint64(0); i < count; i++ {
		seed := start + i
		fmt.Fprintf(os.Stderr, "RUN seed=%d\n", seed)
		p := h.Gen(seed, prop, tier)
		p.Harness, p.Prop, p.Seed, p.Tier = h.Name(), prop, seed, tier
		if os.Getenv("VERIF_GEN_ONLY") == "1" {
			emit(&Result{Seed: seed, Prop: prop, Steps: len(p.Steps)}, p, true)
			continue
		}
		wd := watchdog(seed)
		r := h.Exec(p)
		wd.Stop()
		emit(r, p, every > 0 && i%every == 0)
	}
	return ""
}
