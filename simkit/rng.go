// Package simkit is the shared kernel of the deterministic simulators under /verif/harness:
// one-integer PRNG, scenario programs, canonical event log, result records and the worker
// loop that the orchestrator (bin/check) talks to. Standard library only.
package simkit

import "math/bits"

// Rng is splitmix64-seeded xoshiro256**. It is the only source of choices in a run and is
// consumed exclusively while a scenario program is generated (rule D1 in DESIGN.md).
type Rng struct{ s [4]uint64 }

func splitmix(x *uint64) uint64 {
	*x += 0x9e3779b97f4a7c15
	z := *x
	z = (z ^ (z >> 30)) * 0xbf58476d1ce4e5b9
	z = (z ^ (z >> 27)) * 0x94d049bb133111eb
	return z ^ (z >> 31)
}

// NewRng derives a stream from a seed and a stream label (so that sub-generators are independent).
func NewRng(seed uint64, label string) *Rng {
	x := seed
	for _, c := range []byte(label) {
		x = x*1099511628211 ^ uint64(c)
	}
	r := &Rng{}
	for i := range r.s {
		r.s[i] = splitmix(&x)
	}
	return r
}

func (r *Rng) U64() uint64 {
	s := &r.s
	res := bits.RotateLeft64(s[1]*5, 7) * 9
	t := s[1] << 17
	s[2] ^= s[0]
	s[3] ^= s[1]
	s[1] ^= s[2]
	s[0] ^= s[3]
	s[2] ^= t
	s[3] = bits.RotateLeft64(s[3], 45)
	return res
}

// Intn returns a value in [0,n). n<=0 returns 0.
func (r *Rng) Intn(n int) int {
	if n <= 0 {
		return 0
	}
	return int(r.U64() % uint64(n))
}

// Range returns a value in [lo,hi].
func (r *Rng) Range(lo, hi int) int {
	if hi <= lo {
		return lo
	}
	return lo + r.Intn(hi-lo+1)
}

func (r *Rng) I64n(n int64) int64 {
	if n <= 0 {
		return 0
	}
	return int64(r.U64() % uint64(n))
}

func (r *Rng) Float() float64 { return float64(r.U64()>>11) / float64(1<<53) }

// P is true with probability p.
func (r *Rng) P(p float64) bool { return r.Float() < p }

func (r *Rng) Perm(n int) []int {
	p := make([]int, n)
	for i := range p {
		p[i] = i
	}
	for i := n - 1; i > 0; i-- {
		j := r.Intn(i + 1)
		p[i], p[j] = p[j], p[i]
	}
	return p
}

// Pick returns one of the weights' indices with probability proportional to its weight.
func (r *Rng) Pick(weights ...int) int {
	tot := 0
	for _, w := range weights {
		if w > 0 {
			tot += w
		}
	}
	if tot == 0 {
		return 0
	}
	x := r.Intn(tot)
	for i, w := range weights {
		if w <= 0 {
			continue
		}
		if x < w {
			return i
		}
		x -= w
	}
	return len(weights) - 1
}

func (r *Rng) Bytes(n int) []byte {
	b := make([]byte, n)
	for i := range b {
		b[i] = byte(r.U64())
	}
	return b
}

// Hash64 is a stateless mix used for order-independent fault decisions (rule D3):
// the decision for a request depends only on (seed, epoch, key, occurrence).
func Hash64(seed uint64, parts ...string) uint64 {
	x := seed ^ 0x51_7c_c1_b7_27_22_0a_95
	for _, p := range parts {
		for _, c := range []byte(p) {
			x = (x ^ uint64(c)) * 1099511628211
		}
		x = (x ^ 0xff) * 1099511628211
	}
	return splitmix(&x)
}
