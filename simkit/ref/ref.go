// Package ref holds the independent re-implementations used by the oracles: VAA wire layout,
// signing digest, strict signature verification and the quorum formula. They are written from
// the whitepaper / contract layout, not from node/pkg/vaa. Only the two cryptographic
// primitives are injected by the harness (keccak256, secp256k1 recovery).
package ref

import (
	"bytes"
	"errors"
	"fmt"
)

// Primitives supplied by the harness.
var (
	Keccak256 func(data ...[]byte) []byte
	// Recover returns the 20-byte Ethereum address that produced the 65-byte [R||S||V] signature over hash.
	Recover func(hash, sig []byte) ([]byte, error)
)

// Body is the signed part of a VAA in the Alephium fork's layout.
type Body struct {
	TimestampSec uint32
	Nonce        uint32
	EmitterChain uint16
	TargetChain  uint16
	Emitter      [32]byte
	Sequence     uint64
	Consistency  uint8
	Payload      []byte
}

type Sig struct {
	Index uint8
	Sig   [65]byte
}

type VAA struct {
	Version  uint8
	SetIndex uint32
	Sigs     []Sig
	Body     Body
	BodyRaw  []byte
}

func be(n uint64, width int) []byte {
	b := make([]byte, width)
	for i := width - 1; i >= 0; i-- {
		b[i] = byte(n)
		n >>= 8
	}
	return b
}

// EncodeBody: timestamp(4) nonce(4) emitterChain(2) targetChain(2) emitter(32) sequence(8) consistency(1) payload.
func EncodeBody(b *Body) []byte {
	var out []byte
	out = append(out, be(uint64(b.TimestampSec), 4)...)
	out = append(out, be(uint64(b.Nonce), 4)...)
	out = append(out, be(uint64(b.EmitterChain), 2)...)
	out = append(out, be(uint64(b.TargetChain), 2)...)
	out = append(out, b.Emitter[:]...)
	out = append(out, be(b.Sequence, 8)...)
	out = append(out, b.Consistency)
	out = append(out, b.Payload...)
	return out
}

const bodyFixed = 4 + 4 + 2 + 2 + 32 + 8 + 1

func rd(b []byte, off, width int) uint64 {
	var n uint64
	for i := 0; i < width; i++ {
		n = n<<8 | uint64(b[off+i])
	}
	return n
}

// Decode parses version(1) setIndex(4) nsigs(1) nsigs*(index(1) sig(65)) body. The payload is
// everything that remains (no length cap).
func Decode(data []byte) (*VAA, error) {
	if len(data) < 6 {
		return nil, errors.New("short header")
	}
	v := &VAA{Version: data[0], SetIndex: uint32(rd(data, 1, 4))}
	n := int(data[5])
	off := 6
	if len(data) < off+n*66+bodyFixed {
		return nil, errors.New("short signatures/body")
	}
	for i := 0; i < n; i++ {
		var s Sig
		s.Index = data[off]
		copy(s.Sig[:], data[off+1:off+66])
		v.Sigs = append(v.Sigs, s)
		off += 66
	}
	body := data[off:]
	v.BodyRaw = append([]byte(nil), body...)
	v.Body.TimestampSec = uint32(rd(body, 0, 4))
	v.Body.Nonce = uint32(rd(body, 4, 4))
	v.Body.EmitterChain = uint16(rd(body, 8, 2))
	v.Body.TargetChain = uint16(rd(body, 10, 2))
	copy(v.Body.Emitter[:], body[12:44])
	v.Body.Sequence = rd(body, 44, 8)
	v.Body.Consistency = body[52]
	v.Body.Payload = append([]byte(nil), body[53:]...)
	return v, nil
}

func Encode(v *VAA) []byte {
	out := []byte{v.Version}
	out = append(out, be(uint64(v.SetIndex), 4)...)
	out = append(out, byte(len(v.Sigs)))
	for _, s := range v.Sigs {
		out = append(out, s.Index)
		out = append(out, s.Sig[:]...)
	}
	return append(out, EncodeBody(&v.Body)...)
}

// Digest is keccak(keccak(body)).
func Digest(body []byte) []byte { return Keccak256(Keccak256(body)) }

// Quorum is floor(2n/3)+1 in integers.
func Quorum(n int) int { return 2*n/3 + 1 }

// Verify decides the C01/C19 predicate for serialized VAA bytes against a guardian set
// (20-byte addresses): decodes, indices strictly ascending and < n, every signature recovers over
// the VAA's own digest to set[idx], count >= quorum(n), n >= 1.
func Verify(data []byte, set [][]byte) error {
	v, err := Decode(data)
	if err != nil {
		return fmt.Errorf("undecodable: %w", err)
	}
	return VerifyDecoded(v, set)
}

func VerifyDecoded(v *VAA, set [][]byte) error {
	n := len(set)
	if n < 1 {
		return errors.New("empty guardian set")
	}
	if v.Version != 1 {
		return fmt.Errorf("version %d", v.Version)
	}
	d := Digest(v.BodyRaw)
	last := -1
	for i, s := range v.Sigs {
		if int(s.Index) <= last {
			return fmt.Errorf("signature %d: index %d not strictly ascending", i, s.Index)
		}
		last = int(s.Index)
		if int(s.Index) >= n {
			return fmt.Errorf("signature %d: index %d outside set of %d", i, s.Index, n)
		}
		addr, err := Recover(d, s.Sig[:])
		if err != nil {
			return fmt.Errorf("signature %d: %v", i, err)
		}
		if !bytes.Equal(addr, set[s.Index]) {
			return fmt.Errorf("signature %d: recovers to %x, set[%d]=%x", i, addr, s.Index, set[s.Index])
		}
	}
	if len(v.Sigs) < Quorum(n) {
		return fmt.Errorf("%d signatures < quorum %d of %d", len(v.Sigs), Quorum(n), n)
	}
	return nil
}
