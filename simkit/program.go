package simkit

import (
	"crypto/sha256"
	"encoding/hex"
	"encoding/json"
	"fmt"
	"sort"
	"strings"
)

// Step is one simulator action. All harnesses share this shape so that the orchestrator can
// shrink programs without knowing the harness: Op names the action, A..D are small integer
// arguments (ranks into canonical orderings, durations in ns, sizes), X an optional string.
type Step struct {
	Op string `json:"op"`
	A  int64  `json:"a,omitempty"`
	B  int64  `json:"b,omitempty"`
	C  int64  `json:"c,omitempty"`
	D  int64  `json:"d,omitempty"`
	X  string `json:"x,omitempty"`
}

func (s Step) String() string {
	return fmt.Sprintf("%s(%d,%d,%d,%d,%q)", s.Op, s.A, s.B, s.C, s.D, s.X)
}

// Program is one exactly repeatable execution: configuration plus steps. It is generated from
// Seed before the run starts; a replay file is a Program (plus the recorded violation).
type Program struct {
	Harness string           `json:"harness"`
	Prop    string           `json:"prop"`
	Seed    uint64           `json:"seed"`
	Tier    string           `json:"tier"`
	Cfg     map[string]int64 `json:"cfg"`
	Steps   []Step           `json:"steps"`
}

func (p *Program) C(name string, def int64) int64 {
	if v, ok := p.Cfg[name]; ok {
		return v
	}
	return def
}

// Violation is one oracle failure. Key is the witness key: violation class plus the identifying
// call site / input shape; it is what known_findings.json lists and what shrinking preserves.
type Violation struct {
	Prop   string `json:"prop"`
	Key    string `json:"key"`
	Step   int    `json:"step"`
	Detail string `json:"detail"`
}

// Result is what a worker reports per run.
type Result struct {
	Seed       uint64           `json:"seed"`
	Prop       string           `json:"prop"`
	Steps      int              `json:"steps"`
	LogHash    string           `json:"loghash"`
	NonTrivial bool             `json:"nontrivial"`
	SimNs      int64            `json:"sim_ns"`
	Faults     map[string]int64 `json:"faults,omitempty"`
	Probes     map[string]int64 `json:"probes,omitempty"`
	Violations []Violation      `json:"violations,omitempty"`
	Program    *Program         `json:"program,omitempty"`
	Log        []string         `json:"log,omitempty"`
	HarnessErr string           `json:"harness_err,omitempty"`
}

// Log is the canonical event log (rule D4): per action a sorted multiset of lines.
type Log struct {
	lines   []string
	pending []string
}

// Add records an event that belongs to the current action; order inside an action is canonicalised.
func (l *Log) Add(format string, a ...interface{}) {
	l.pending = append(l.pending, fmt.Sprintf(format, a...))
}

// Cut ends the current action: pending events are sorted and appended under a header.
func (l *Log) Cut(header string) {
	sort.Strings(l.pending)
	l.lines = append(l.lines, "# "+header)
	l.lines = append(l.lines, l.pending...)
	l.pending = l.pending[:0]
}

func (l *Log) Lines() []string { return l.lines }

func (l *Log) Hash() string {
	h := sha256.Sum256([]byte(strings.Join(l.lines, "\n")))
	return hex.EncodeToString(h[:12])
}

// Stats counts faults that actually fired and rare-branch probes that were hit.
type Stats struct {
	Faults map[string]int64
	Probes map[string]int64
}

func NewStats() *Stats             { return &Stats{Faults: map[string]int64{}, Probes: map[string]int64{}} }
func (s *Stats) Fault(kind string) { s.Faults[kind]++ }
func (s *Stats) Probe(name string) { s.Probes[name]++ }
func (s *Stats) ProbeN(name string, n int64) {
	if n > 0 {
		s.Probes[name] += n
	}
}

func MustJSON(v interface{}) string {
	b, err := json.Marshal(v)
	if err != nil {
		panic(err)
	}
	return string(b)
}
